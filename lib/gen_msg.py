"""Schedule generators for the message-layer world (rvh msg)."""
import random, math

SLICE = 1200
LENS = [0, 1, 5, 63, 64, 100, 700, 1198, 1199, 1200, 1201, 2399, 2400, 2401, 3600, 3601, 5000, 12001]


def chan(cid, kind, maxmem=5_000_000, resend=300):
    return {"id": cid, "kind": kind, "max": maxmem, "resend": resend}


def default_chans():
    return [chan(0, "U"), chan(1, "RU"), chan(2, "RO")]


def bound(resend, dt, backlog, budget):
    return 2 * (math.ceil(resend / max(1, dt)) + math.ceil(backlog / max(1, budget - SLICE))) + 4


class Sched:
    def __init__(self, sid, cfg):
        self.s = {"id": sid, "cfg": cfg, "steps": []}
        self.tag = 1
        self.backlog = 0

    def add(self, **kw):
        self.s["steps"].append(kw)

    def send(self, conn, side, ch, ln, tag=None):
        if tag is None:
            if ln == 0:
                tag = 0
            else:
                tag = self.tag
                self.tag += 1
        self.backlog += ln
        self.add(a="send", conn=conn, side=side, ch=ch, tag=tag, len=ln)
        return tag

    def heal_rounds(self, conn, dt, extra=2, live=True):
        cfg = self.s["cfg"]
        resend = max([c["resend"] for c in cfg["sc"] + cfg["cs"]] + [1])
        b = bound(resend, dt, self.backlog, cfg["budget"]) if live and cfg["budget"] >= 2 * SLICE else -1
        self.add(a="heal", conn=conn, bound=b)
        self.add(a="round", conn=conn, dt=dt, n=(b if b > 0 else 6) + extra)


def random_schedule(rng, sid, props, chans_sc=None, chans_cs=None, budget=60000, ticks=40, dts=(100, 300, 400),
                    p_send=0.6, max_sends=3, lens=None, p_deliver=0.6, p_dup=0.1, p_drop=0.15, p_recv=0.5,
                    netops=8, inorder=0.5, live=True, seqbase=0, midbase=0, conns=(1,)):
    chans_sc = chans_sc or default_chans()
    chans_cs = chans_cs or default_chans()
    lens = lens or LENS
    cfg = {"conns": list(conns), "sc": chans_sc, "cs": chans_cs, "budget": budget, "seqbase": seqbase, "midbase": midbase,
           "props": props}
    sc = Sched(sid, cfg)
    dt_main = rng.choice(dts)
    for _ in range(ticks):
        for conn in conns:
            for side, chs in (("S", chans_sc), ("C", chans_cs)):
                if rng.random() < p_send:
                    for _ in range(rng.randint(1, max_sends)):
                        c = rng.choice(chs)
                        ln = rng.choice(lens)
                        if ln > c["max"]:
                            ln = rng.choice([x for x in lens if x <= c["max"]] or [0])
                        sc.send(conn, side, c["id"], ln)
        dt = dt_main if rng.random() < 0.8 else rng.choice(dts)
        sc.add(a="update", conn=0, side="S", dt=dt)
        for conn in conns:
            sc.add(a="update", conn=conn, side="C", dt=dt)
        for conn in conns:
            if rng.random() < 0.9:
                sc.add(a="flush", conn=conn, side="S")
            if rng.random() < 0.9:
                sc.add(a="flush", conn=conn, side="C")
        for conn in conns:
            for _ in range(rng.randint(0, netops)):
                to = rng.choice("SC")
                r = rng.random()
                sel = 0 if rng.random() < inorder else rng.randint(0, 999)
                if r < p_deliver:
                    sc.add(a="deliver", conn=conn, to=to, sel=sel, keep=False)
                elif r < p_deliver + p_dup:
                    sc.add(a="deliver", conn=conn, to=to, sel=sel, keep=True)
                elif r < p_deliver + p_dup + p_drop:
                    sc.add(a="drop", conn=conn, to=to, sel=sel)
            for side, chs in (("S", chans_cs), ("C", chans_sc)):
                for c in chs:
                    if rng.random() < p_recv:
                        for _ in range(rng.randint(1, 3)):
                            sc.add(a="recv", conn=conn, side=side, ch=c["id"])
    sc.heal_rounds(0 if len(conns) > 1 else conns[0], dt_main, live=live)
    return sc.s


# ---------------------------------------------------------------------------------------------------------------
# C06: hostile packets
# ---------------------------------------------------------------------------------------------------------------
import wire as W


def fill(n, b=0xAB):
    return bytes([b]) * n


def hostile_structural(rng, full=True):
    """Field-boundary packets (bytes) around what the receiving code inspects."""
    out = []
    chans = [0, 1, 2, 7, 255]
    mids = [0, 1, 2, 3, 63, 64, 16383, 16384, (1 << 30) - 1, 1 << 30, (1 << 62) - 1]
    ns = [1, 2, 3, 4, 5, 63, 64, 1000000]
    for rel in (True, False):
        for ch in chans:
            for mid in rng.sample(mids, 4 if not full else len(mids)):
                for n in ns:
                    for idx in sorted(set([0, 1, n - 1, n, n + 1, 1 << 30, (1 << 62) - 1])):
                        if idx < 0:
                            continue
                        for plen in (1, 1199, 1200) + ((0, 1201) if not rel else ()):
                            if rng.random() < (1.0 if full else 0.08):
                                out.append(("slice", W.slice_packet(rel, rng.choice([0, 5, 900, 1 << 40]), ch, mid, idx, n, fill(plen))))
    for ch in chans:
        for mid in mids:
            out.append(("small", W.small_reliable(7, ch, [(mid, fill(rng.choice([0, 1, 1200])))])))
        out.append(("small", W.small_reliable(7, ch, [])))
        out.append(("small", W.small_unreliable(7, ch, [fill(0), fill(1200)])))
        out.append(("small", W.small_reliable(7, ch, [(0, fill(600)), (0, fill(600)), (1, fill(0))])))
        # announced message count larger than what follows
        out.append(("small", bytes([0]) + W.varint(7) + bytes([ch]) + (65535).to_bytes(2, "big")))
    for ranges in ([(0, 1)], [(0, 1), (2, 3)], [(0, 100000)], [(5, 6)], [((1 << 62) - 2, (1 << 62) - 1)], [(i * 2, i * 2 + 1) for i in range(65)],
                   [(0, (1 << 62) - 1)]):
        out.append(("ack", W.ack(9, ranges)))
    # raw ack encodings around the arithmetic checks (end < size, start < gap + 2)
    for fe in (0, 1, 2, 5):
        for fs in (0, 1, 2, 6):
            for gap in (0, 1, 2, 3, 4):
                for size in (0, 1, 5):
                    if rng.random() < (1.0 if full else 0.2):
                        out.append(("ackraw", W.ack_raw(9, fe, fs, [(gap, size)])))
    out.append(("ackraw", W.ack_raw(9, 10, 2, [(1, 1)] * 200)))
    out.append(("ackraw", bytes([4]) + W.varint(9) + W.varint(10) + W.varint(0) + W.varint((1 << 62) - 1)))
    return out


def hostile_mutations(rng, samples, n_random):
    """Truncations and header-byte replacements of valid sample packets, plus random strings."""
    out = []
    for b in samples:
        for n in range(0, min(len(b), 24)):
            out.append(("trunc", b[:n]))
        out.append(("trunc", b[:-1]))
        for pos in range(0, min(len(b), 14)):
            for v in (0x00, 0x3F, 0x40, 0x7F, 0x80, 0xBF, 0xC0, 0xFF):
                if b[pos] != v:
                    out.append(("byte", b[:pos] + bytes([v]) + b[pos + 1:]))
    for _ in range(n_random):
        ln = rng.choice([0, 1, 2, 3, 5, 8, 17, 64, 300, 1300, 1400])
        body = bytes(rng.getrandbits(8) for _ in range(ln))
        if ln and rng.random() < 0.7:
            body = bytes([rng.randint(0, 4)]) + body[1:]
        out.append(("random", body))
    return out


def hostile_groups(rng):
    """Multi-packet hostile inputs: slices of one message that contradict each other."""
    out = []
    for rel in (True, False):
        for ch in (0, 1, 2):
            for mid in (0, 1, 40):
                for n1, n2 in ((2, 5), (5, 2), (3, 2), (2, 3), (2, 1), (1, 2), (2, 1000000), (1000000, 2)):
                    for plen in (1200, 1):
                        out.append([("nmismatch", W.slice_packet(rel, 11, ch, mid, 0, n1, fill(1200))),
                                    ("nmismatch", W.slice_packet(rel, 12, ch, mid, 1, n2, fill(plen)))])
                # a reassembly is open with n1 slices; a further slice of the same message announces MORE slices and carries an index that
                # is fine for its own count but not for the open reassembly (at, just past, far past its end)
                for n1, n2, idx in ((2, 3, 2), (2, 10, 5), (2, 10, 2), (3, 4, 3), (1, 2, 1), (2, 1000, 999), (5, 6, 5)):
                    out.append([("idxmismatch", W.slice_packet(rel, 11, ch, mid, 0, n1, fill(1200))),
                                ("idxmismatch", W.slice_packet(rel, 12, ch, mid, idx, n2, fill(1200 if idx < n2 - 1 else 7)))])
                # the same slice twice, then the rest; completion followed by stale duplicates
                out.append([("dupslice", W.slice_packet(rel, 11, ch, mid, 0, 2, fill(1200))),
                            ("dupslice", W.slice_packet(rel, 12, ch, mid, 0, 2, fill(1200))),
                            ("dupslice", W.slice_packet(rel, 13, ch, mid, 1, 2, fill(7))),
                            ("dupslice", W.slice_packet(rel, 14, ch, mid, 1, 2, fill(7)))])
    # one message id of a reliable channel submitted twice with DIFFERENT payload sizes while it is still buffered behind a gap
    # (an honest resend is byte-identical), in two packets or in one; then the gap is filled so that the application drains:
    # whatever copy the channel keeps, the memory it accounts for must be the memory it gives back
    for ch in (1, 2):
        for mid in (1, 3, 40):
            for l1, l2 in ((10, 1000), (1000, 10), (0, 1200), (1200, 1)):
                gap = W.small_reliable(13, ch, [(m, fill(5)) for m in range(0, min(mid, 8))])
                out.append([("sizemismatch", W.small_reliable(11, ch, [(mid, fill(l1))])),
                            ("sizemismatch", W.small_reliable(12, ch, [(mid, fill(l2))])), ("sizemismatch", gap)])
                out.append([("sizemismatch", W.small_reliable(11, ch, [(mid, fill(l1)), (mid, fill(l2))])), ("sizemismatch", gap)])
                # six buffered ids, each re-sent larger (more stored than the channel budget allows)
            out.append([("sizemismatch", W.small_reliable(11, ch, [(mid + k, fill(10)) for k in range(6)])),
                        ("sizemismatch", W.small_reliable(12, ch, [(mid + k, fill(1000)) for k in range(6)])),
                        ("sizemismatch", W.small_reliable(13, ch, [(m, fill(5)) for m in range(0, min(mid, 8))]))])
    return out


def hostile_schedules(rng, props, packets, per_run=2, victims=(1,), groups=()):
    """Each run: a two-connection server; a session prefix brings connection 1 into some state class; hostile datagrams are
    handed to one side of connection 1; afterwards both connections run good rounds and connection 2 must still deliver."""
    chans = [chan(0, "U", maxmem=20000), chan(1, "RU", maxmem=20000), chan(2, "RO", maxmem=20000)]
    scheds = []
    rng.shuffle(packets)
    allgroups = [packets[i:i + per_run] for i in range(0, len(packets), per_run)] + list(groups)
    for i, group in enumerate(allgroups):
        cfg = {"conns": [1, 2], "sc": chans, "cs": chans, "budget": 60000, "seqbase": 0, "midbase": 0, "props": props, "victims": list(victims)}
        sc = Sched("hostile-%d" % i, cfg)
        state = rng.choice(["fresh", "mid", "buffered", "drained", "disc"])
        to = rng.choice("SC")
        snd = "C" if to == "S" else "S"
        if state != "fresh":
            sc.send(1, snd, 2, 2401)
            sc.send(1, snd, 1, 1201)
            sc.send(1, snd, 0, 1300)
            sc.send(1, snd, 2, 5)
            sc.add(a="flush", conn=1, side=snd)
            k = {"mid": 3, "buffered": 9, "drained": 9, "disc": 2}[state]
            for j in range(k):
                sc.add(a="deliver", conn=1, to=to, sel=(0 if state != "mid" else rng.randint(0, 5)), keep=False)
            if state == "drained":
                sc.add(a="drain", conn=1, side=to)
            if state == "disc":
                sc.add(a="api", conn=1, side=to, call="disconnect")
        # the bystander connection has traffic in flight as well
        sc.send(2, "C", 2, 1201)
        sc.send(2, "S", 1, 700)
        sc.add(a="flush", conn=2, side="C")
        for kind, b in group:
            sc.add(a="hostile", conn=1, to=to, hex=b.hex(), shape=kind, ctx=state)
            if rng.random() < 0.5:
                sc.add(a="recv", conn=1, side=to, ch=rng.choice([0, 1, 2]))
        sc.add(a="update", conn=0, side="S", dt=300)
        sc.add(a="update", conn=1, side="C", dt=300)
        sc.send(1, "S", 2, 9)
        sc.send(1, "C", 2, 9)
        sc.send(2, "S", 2, 1201)
        sc.backlog = 5000
        sc.add(a="heal", conn=2, bound=bound(300, 300, 5000, 60000))
        sc.add(a="round", conn=0, dt=300, n=bound(300, 300, 5000, 60000) + 2)
        scheds.append(sc.s)
    return scheds


# ---------------------------------------------------------------------------------------------------------------
# C13: packet sizes
# ---------------------------------------------------------------------------------------------------------------
def big(v):
    return v if v < (1 << 31) else str(v)


def size_schedules(rng, props, n_pack, full):
    out = []
    bases = [0, 60, 63, 16380, 16383, (1 << 30) - 4, (1 << 30), (1 << 62) - 400]
    kinds_all = [["RO"], ["RU"], ["U"], ["U", "RO"], ["RO", "RU", "U"]]
    for i in range(n_pack):
        kinds = rng.choice(kinds_all)
        chans = [chan(j, k, resend=rng.choice([100, 300])) for j, k in enumerate(kinds)]
        cfg = {"conns": [1], "sc": chans, "cs": chans, "budget": rng.choice([60000, 60000, 5000]), "seqbase": big(rng.choice(bases)),
               "midbase": big(rng.choice(bases)), "props": props}
        sc = Sched("pack-%d" % i, cfg)
        pool = rng.choice([[1185, 1190, 1195, 1196, 1197, 1198, 1199, 1200], [1000, 700, 600, 88, 89, 1200, 1199], [1, 63, 64, 1100, 1136, 1137, 1138, 1200]])
        for t in range(rng.randint(2, 6)):
            for side in "SC":
                for _ in range(rng.randint(1, 6)):
                    c = rng.choice(chans)
                    sc.send(1, side, c["id"], rng.choice(pool))
            sc.add(a="update", conn=0, side="S", dt=300)
            sc.add(a="update", conn=1, side="C", dt=300)
            sc.add(a="flush", conn=1, side="S")
            sc.add(a="flush", conn=1, side="C")
            for _ in range(rng.randint(0, 12)):
                sc.add(a="deliver", conn=1, to=rng.choice("SC"), sel=rng.choice([0, 0, 3]), keep=False)
        sc.heal_rounds(1, 300, live=False)
        out.append(sc.s)
    # pending acknowledgement ranges: valid empty unreliable packets carrying chosen sequence numbers
    top = (1 << 62) - 1
    patterns = {
        "asc_wide": [k * (1 << 32) + 5 for k in range(1, 150)],
        "desc_wide": [k * (1 << 32) + 5 for k in range(150, 0, -1)],
        "asc_alt": [2 * k for k in range(0, 200)],
        "desc_alt": [2 * k for k in range(200, 0, -1)],
        "top": [top - 2 * k for k in range(0, 120)],
        "top_asc": [top - 2 * k for k in range(120, -1, -1)],
        "zigzag": [x for k in range(1, 80) for x in (k * (1 << 40), (1 << 61) - k * (1 << 40))],
        "mixed_width": [63, 64, 16383, 16385, (1 << 30) - 1, (1 << 30) + 1, (1 << 40)] + [1000 + 3 * k for k in range(80)],
    }
    for name, seqs in patterns.items():
        for to in "SC":
            chans = default_chans()
            cfg = {"conns": [1], "sc": chans, "cs": chans, "budget": 60000, "seqbase": 0, "midbase": 0, "props": props}
            sc = Sched("acks-%s-%s" % (name, to), cfg)
            for j, q in enumerate(seqs):
                sc.add(a="hostile", conn=1, to=to, hex=W.small_unreliable(q, 0, []).hex(), shape="emptyseq", ctx=name)
                if j % 16 == 15 or j == len(seqs) - 1:
                    sc.add(a="flush", conn=1, side=to)
            sc.add(a="update", conn=0, side="S", dt=300)
            sc.add(a="update", conn=1, side="C", dt=300)
            sc.add(a="flush", conn=1, side=to)
            sc.heal_rounds(1, 300, live=False)
            out.append(sc.s)
    return out


# ---------------------------------------------------------------------------------------------------------------
# C12: sequences of public API calls
# ---------------------------------------------------------------------------------------------------------------
def api_schedules(rng, props, n, max_len=25, local=True):
    out = []
    for i in range(n):
        tiny = rng.random() < 0.5
        chans = [chan(0, "RO", maxmem=(10 if tiny else 100000)), chan(1, "U", maxmem=(10 if tiny else 100000))]
        ids = [1, 2]
        cfg = {"conns": ids, "sc": chans, "cs": chans, "budget": 60000, "seqbase": 0, "midbase": 0, "props": props, "manual": rng.random() < 0.7}
        sc = Sched("api-%d" % i, cfg)
        for _ in range(rng.randint(3, max_len)):
            c = rng.choice(ids)
            r = rng.random()
            if r < 0.30:
                calls = ["add_connection", "remove_connection", "disconnect", "disconnect_all", "set_connected", "set_connecting",
                         "disconnect_due_to_transport"]
                if local:
                    calls += ["new_local_client", "disconnect_local_client", "process_local_client"]
                sc.add(a="api", conn=c, side="S", call=rng.choice(calls))
            elif r < 0.45:
                sc.add(a="api", conn=c, side="C", call=rng.choice(["disconnect", "disconnect_due_to_transport", "set_connected", "set_connecting"]))
            elif r < 0.62:
                sc.add(a="get_event")
            elif r < 0.74:
                sc.send(c, rng.choice("SC"), rng.choice([0, 1]), rng.choice([0, 4, 8, 11]))
            elif r < 0.82:
                sc.add(a="flush", conn=c, side=rng.choice("SC"))
            elif r < 0.90:
                sc.add(a="deliver", conn=c, to=rng.choice("SC"), sel=0, keep=rng.random() < 0.3)
            elif r < 0.95:
                sc.add(a="recv", conn=c, side=rng.choice("SC"), ch=rng.choice([0, 1]))
            elif r < 0.98:
                sc.add(a="hostile", conn=c, to=rng.choice("SC"), hex=rng.choice(["ff00000000", W.small_reliable(5, 9, []).hex(), ""]), shape="bad", ctx="api")
            else:
                sc.add(a="update", conn=(0 if rng.random() < 0.5 else c), side=("S" if rng.random() < 0.5 else "C"), dt=300)
        for _ in range(6):
            sc.add(a="get_event")
        out.append(sc.s)
    return out


# ---------------------------------------------------------------------------------------------------------------
# C11: several clients, broadcast, one misbehaving / stalled client or channel
# ---------------------------------------------------------------------------------------------------------------
def multi_schedules(rng, props, n, full):
    out = []
    for i in range(n):
        conns = [1, 2, 3] if rng.random() < 0.7 else [1, 2]
        kinds = rng.choice([["RO", "U"], ["U", "RU", "RO"], ["RO", "RU"], ["RU", "U", "RO"]])
        chans = [chan(j, k, resend=rng.choice([100, 300])) for j, k in enumerate(kinds)]
        mode = rng.choice(["plain", "hostile", "stalled", "stalled_channel", "disconnect"])
        bad = rng.choice(conns)
        cfg = {"conns": conns, "sc": chans, "cs": chans, "budget": rng.choice([60000, 60000, 20000]), "seqbase": 0, "midbase": 0, "props": props,
               "victims": [bad] if mode == "hostile" else []}
        sc = Sched("multi-%d-%s" % (i, mode), cfg)
        dt = rng.choice([100, 300])
        big_sent = False
        for t in range(rng.randint(4, 25)):
            for _ in range(rng.randint(0, 3)):
                r = rng.random()
                c = rng.choice(chans)
                ln = rng.choice([0, 5, 100, 700, 1201, 2401])
                if r < 0.3:
                    tag = 0 if ln == 0 else sc.tag
                    sc.tag += 1
                    sc.backlog += ln * len(conns)
                    sc.add(a="bcast", ch=c["id"], tag=tag, len=ln, **{"except": rng.choice([0, 0] + conns)})
                elif r < 0.65:
                    sc.send(rng.choice(conns), "S", c["id"], ln)
                else:
                    sc.send(rng.choice(conns), "C", c["id"], ln)
            if mode == "stalled_channel" and not big_sent and t >= 1:
                # a reliable channel early in the order with more un-acknowledged sliced data than one tick of budget
                first_rel = next((c for c in chans if c["kind"] != "U"), None)
                if first_rel:
                    sc.send(bad, "S", first_rel["id"], 64800)
                    big_sent = True
            sc.add(a="update", conn=0, side="S", dt=dt)
            for cn in conns:
                sc.add(a="update", conn=cn, side="C", dt=dt)
            for cn in conns:
                sc.add(a="flush", conn=cn, side="S")
                sc.add(a="flush", conn=cn, side="C")
            for cn in conns:
                stalled_now = (mode in ("stalled",) and cn == bad)
                for _ in range(rng.randint(0, 8)):
                    to = rng.choice("SC")
                    if stalled_now:
                        continue
                    if mode == "stalled_channel" and cn == bad and to == "S":
                        continue  # acknowledgements of the misbehaving client never arrive
                    r = rng.random()
                    sel = 0 if rng.random() < 0.6 else rng.randint(0, 99)
                    if r < 0.65:
                        sc.add(a="deliver", conn=cn, to=to, sel=sel, keep=False)
                    elif r < 0.75:
                        sc.add(a="deliver", conn=cn, to=to, sel=sel, keep=True)
                    elif r < 0.9:
                        sc.add(a="drop", conn=cn, to=to, sel=sel)
                if mode == "hostile" and cn == bad and rng.random() < 0.5:
                    kind, b = rng.choice(hostile_structural(rng, full=False)[:400] or [("x", b"\xff")])
                    sc.add(a="hostile", conn=cn, to=rng.choice("SC"), hex=b.hex(), shape=kind, ctx="multi")
                if mode == "disconnect" and cn == bad and t == 3:
                    sc.add(a="api", conn=cn, side=rng.choice("SC"), call="disconnect")
                for side, chs in (("S", chans), ("C", chans)):
                    for c in chs:
                        if rng.random() < 0.5:
                            sc.add(a="recv", conn=cn, side=side, ch=c["id"])
        b = bound(300, dt, sc.backlog, cfg["budget"])
        good = [c for c in conns if not (mode in ("hostile", "stalled", "stalled_channel", "disconnect") and c == bad)]
        for c in good:
            sc.add(a="heal", conn=c, bound=b)
        sc.add(a="round", conn=0, dt=dt, n=b + 2)
        out.append(sc.s)
    return out
