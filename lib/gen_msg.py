"""Schedule generators for the message-layer world (rvh msg)."""
import random, math

SLICE = 1200
LENS = [0, 1, 5, 63, 64, 100, 700, 1198, 1199, 1200, 1201, 2399, 2400, 2401, 3600, 3601, 5000, 12001]


def chan(cid, kind, maxmem=5_000_000, resend=300):
    return {"id": cid, "kind": kind, "max": maxmem, "resend": resend}


def default_chans():
    return [chan(0, "U"), chan(1, "RU"), chan(2, "RO")]


def bound(resend, dt, backlog, budget):
    return 2 * (math.ceil(resend / max(1, dt)) + math.ceil(backlog / max(1, budget - SLICE))) + 4


class Sched:
    def __init__(self, sid, cfg):
        self.s = {"id": sid, "cfg": cfg, "steps": []}
        self.tag = 1
        self.backlog = 0

    def add(self, **kw):
        self.s["steps"].append(kw)

    def send(self, conn, side, ch, ln, tag=None):
        if tag is None:
            if ln == 0:
                tag = 0
            else:
                tag = self.tag
                self.tag += 1
        self.backlog += ln
        self.add(a="send", conn=conn, side=side, ch=ch, tag=tag, len=ln)
        return tag

    def heal_rounds(self, conn, dt, extra=2, live=True):
        cfg = self.s["cfg"]
        resend = max([c["resend"] for c in cfg["sc"] + cfg["cs"]] + [1])
        b = bound(resend, dt, self.backlog, cfg["budget"]) if live and cfg["budget"] >= 2 * SLICE else -1
        self.add(a="heal", conn=conn, bound=b)
        self.add(a="round", conn=conn, dt=dt, n=(b if b > 0 else 6) + extra)


def random_schedule(rng, sid, props, chans_sc=None, chans_cs=None, budget=60000, ticks=40, dts=(100, 300, 400),
                    p_send=0.6, max_sends=3, lens=None, p_deliver=0.6, p_dup=0.1, p_drop=0.15, p_recv=0.5,
                    netops=8, inorder=0.5, live=True, seqbase=0, midbase=0, conns=(1,)):
    chans_sc = chans_sc or default_chans()
    chans_cs = chans_cs or default_chans()
    lens = lens or LENS
    cfg = {"conns": list(conns), "sc": chans_sc, "cs": chans_cs, "budget": budget, "seqbase": seqbase, "midbase": midbase,
           "props": props}
    sc = Sched(sid, cfg)
    dt_main = rng.choice(dts)
    for _ in range(ticks):
        for conn in conns:
            for side, chs in (("S", chans_sc), ("C", chans_cs)):
                if rng.random() < p_send:
                    for _ in range(rng.randint(1, max_sends)):
                        c = rng.choice(chs)
                        ln = rng.choice(lens)
                        if ln > c["max"]:
                            ln = rng.choice([x for x in lens if x <= c["max"]] or [0])
                        sc.send(conn, side, c["id"], ln)
        dt = dt_main if rng.random() < 0.8 else rng.choice(dts)
        sc.add(a="update", conn=0, side="S", dt=dt)
        for conn in conns:
            sc.add(a="update", conn=conn, side="C", dt=dt)
        for conn in conns:
            if rng.random() < 0.9:
                sc.add(a="flush", conn=conn, side="S")
            if rng.random() < 0.9:
                sc.add(a="flush", conn=conn, side="C")
        for conn in conns:
            for _ in range(rng.randint(0, netops)):
                to = rng.choice("SC")
                r = rng.random()
                sel = 0 if rng.random() < inorder else rng.randint(0, 999)
                if r < p_deliver:
                    sc.add(a="deliver", conn=conn, to=to, sel=sel, keep=False)
                elif r < p_deliver + p_dup:
                    sc.add(a="deliver", conn=conn, to=to, sel=sel, keep=True)
                elif r < p_deliver + p_dup + p_drop:
                    sc.add(a="drop", conn=conn, to=to, sel=sel)
            for side, chs in (("S", chans_cs), ("C", chans_sc)):
                for c in chs:
                    if rng.random() < p_recv:
                        for _ in range(rng.randint(1, 3)):
                            sc.add(a="recv", conn=conn, side=side, ch=c["id"])
    sc.heal_rounds(0 if len(conns) > 1 else conns[0], dt_main, live=live)
    return sc.s
