HOOK_COMMITS = ["d41ea61", "4c86597", "b4eb0a9"]
NOTES = ("Every check is `bin/check <ID>`: TLC model-checks the focused configuration(s) of the implementation-shaped TLA+ model with the "
         "observer's property clauses as invariant, the model's state graph is exported as schedules, the Rust harness replays them (and "
         "seeded-random schedules) on the real code, and TLC validates the recorded traces against the observer (verdict) and against the "
         "model (conformance, for model-exported AND generated schedules; a mismatch is reported as DRIFT, never as a violation). "
         "See DESIGN.md.")
NOT_APPLICABLE = {}
MSG_NOTE = ("Trusted: TLC; the observer module spec/RenetObs.tla (the property clauses); the harness projection (content interning, packet "
            "description through the crate's own decoder behind the `verif` feature). Exhaustive only within the stated small scopes; larger "
            "scopes are sampled by seeded-random schedules.")
def _msg(text):
    return {"category": "model_checking", "text": text, "note": MSG_NOTE,
            "technique": "TLA+/TLC model checking + model-exported schedule replay + TLC trace validation (monitor and strict)"}


NC_NOTE = ("Trusted: TLC; the observer module spec/NetcodeObs.tla; the symbolic (Dolev-Yao) reading of the AEADs - the chacha20poly1305 crate, "
           "the OS RNG and key secrecy are trusted; datagram labels (genuine / replay / re-addressed / mutated / crafted) are ground truth by "
           "construction of the harness, datagrams are opened with the keys the harness issued through the crate's own codec (`verif` feature). "
           "Model configs run the intended design (TokenSingleUse = TRUE); the code's deviation D18 is a recorded known finding. Exhaustive only "
           "within the stated small scopes (2-3 identities, 6-9 steps), secure and unsecure authentication; the 2048-entry token table is filled by one dedicated history "
           "(known finding D21), the replay window's at-most-once property is proved for all sequence numbers with TLAPS (spec/ReplayWindow.tla).")


def _nc(text):
    return {"category": "model_checking", "text": text, "note": NC_NOTE,
            "technique": "TLA+/TLC model checking (symbolic crypto) + model-exported schedule replay + TLC trace validation (monitor and strict)"}


CHECKS = {
    "C04": _nc("Netcode.tla: one session, payloads in both directions generated and presented in any order, replayed and re-addressed "
               "(9 steps) with C04_Authentic / C04_Once / C04_Accept as invariants; sampled finished behaviours replayed on the real "
               "NetcodeServer / NetcodeClient; plus seeded payload histories with bit-flipped / truncated / re-addressed copies, packets "
               "sealed under another session's keys or protocol id, window-boundary sequence jumps (254..512) and session restarts; thorough "
               "tier: TLAPS proof (82 obligations) that the replay ring buffer of replay_protection.rs never accepts a sequence number twice."),
    "C05": _nc("Netcode.tla: a victim and an attacker owning two tokens (one for the victim's id), three addresses, 2 slots; requests, "
               "responses, replays, re-addressed copies and challenges cross-used between the attacker's sessions in any interleaving of 6 "
               "steps with C05_Sound as invariant; replay on the code; plus seeded handshake histories with expired (clock at expiry -1001..+1001 "
               "ms), foreign-key, foreign-protocol, wrong-host and single-field tampered tokens; the 2048-entry token table at and one below "
               "its capacity (known finding D21: the oldest binding is replaced)."),
    "C07": _nc("All 256 prefix bytes x length classes x sequence values, request-shaped junk of every announced sequence length and all-zero / "
               "all-one strings presented in every protocol state (unknown / pending / connected address; client requesting / responding / "
               "connected / disconnected), single-bit flips and truncations of sample datagrams of every kind, hostile connect-token bytes "
               "through ConnectToken::read + NetcodeClient::new + update; clauses C07_NoPanic, C07_NoEffect (snapshot incl. timeout ages "
               "unchanged, no reply, no result); model-exported handshake races keep the table model in the loop."),
    "C10": _nc("Netcode.tla: two tokens for one id + a third identity, 3 slots, honest exchanges and disconnects in any order (7 steps): two "
               "half-open sessions for one id, slots freed in front of an established session; clauses C10_Unique, C10_Bounded, "
               "C10_EventsMatch, C10_Lookups, C10_FullRefuses on the table snapshot after every server call; run-time limit changes; "
               "ServerAuthentication::Unsecure (zero-key tokens listing any host connect, tokens sealed with the real key do not); a client "
               "program restarted behind the same address (second client object, fresh token, same id, 1 s time-outs); replay + seeded histories."),
    "C16": _msg("MC_Wire.tla: the pending-ack range list (add_pending_ack as transcribed in Renet.tla, cap 3) under every arrival order of up "
                "to 7 sequence numbers out of 10 stays sorted / disjoint / non-adjacent / within the cap / a subset of what arrived, and the "
                "delta coding of ack packets satisfies Decode(Encode(r)) = r on every reachable list; every list is exported, shifted across "
                "the varint width boundaries and round-tripped through the real encoder/decoder; packets of every kind with fields at "
                "0/1/63/64/16383/16384/2^30-1/2^30/2^62-1; netcode packets of every kind x 15 sequence values x payload lengths; tokens with "
                "1..32 IPv4/IPv6 addresses through write/read and seal/open; decode-reencode-decode on valid, truncated, byte-replaced and random "
                "strings and on live session datagrams; C16_AckSet: the ack packet of every flush equals verif_pending_acks; MC_WireContract.tla: "
                "add_pending_ack, acked_largest and the ack codec as functions against a declarative contract (result = the newest cap maximal "
                "runs of the set plus the arrival; acked_largest removes exactly 0..a; Decode(Encode(r)) = r) for EVERY canonical range list "
                "over 0..11 (thorough 0..13, cap 4) x every arriving sequence number, not only the reachable ones."),
    "C20": {"category": "model_checking",
            "text": "MC_Transport.tla models the renet_netcode glue (server update: process datagrams -> add/remove_connection, update_client, push "
                    "renet disconnections down; client update; per step, client and direction the relay passes or drops what is queued; up to two "
                    "application / client / transport initiated disconnects) with C20_LockStep, C20_EventsOnce and 'nothing disconnects unless "
                    "asked or after a whole time-out of silence' and 'no early time-out' as invariants over every interleaving of 13 steps (250 ms "
                    "steps) and of 11 steps with a reachable 1 s time-out (400 ms steps); TLC liveness under weak fairness of every endpoint "
                    "(a requested disconnect or a time-out ends the session on both sides in both layers, every Connected event gets its "
                    "Disconnected; 1 client quick, 2 clients / 1.0 M states thorough); sampled behaviours are replayed on the REAL "
                    "NetcodeServerTransport / NetcodeClientTransport over loopback UDP behind the harness relay, followed by good rounds; plus "
                    "seeded relay schedules (drop / duplicate / hold / late + replayed / bit-corrupted datagrams, 2-4 clients, staggered joins, "
                    "churn, cut-off clients, a client program restarted behind the same address with a fresh token for the same id before / after "
                    "the server's time-out with its farewell lost or delivered); clauses C20_LockStep (renet ids = netcode ids = client_addr map after every server update), "
                    "_EventsOnce, _BothSides, _OnlyTimeouts, _Connects, end-to-end E2E_Same / _Ordered / _Once / _Live.",
            "note": "Trusted: TLC, spec/TransportObs.tla, loopback UDP (synchronous delivery, bounded poll otherwise); time is virtual (duration "
                    "argument). The glue model abstracts both layers to per-id states and datagram kinds; its strict pass compares client status, "
                    "listed ids of both layers and per-id server events after every transport step.",
            "technique": "TLA+/TLC model checking (safety + liveness under fairness) of the transport glue + exported relay schedules on the real UDP stack + TLC trace validation (monitor and strict)"},
    "C17": _nc("(a) every sampled bit position and truncation length of sample datagrams of every kind, and all 64 single-bit variants of the "
               "protocol id, must yield no content and no effect (C17_TamperEvident); (b) C17_NonceUnique over every datagram either side "
               "emits (key, sequence -> byte hash) in all model-exported handshake / denial / retry / disconnect histories (Netcode.tla, two "
               "identities racing for one slot) and seeded histories, scope = one connection attempt and the session that follows."),
    "C18": _nc("Netcode.tla with time: one client whose token has a 1 s timeout; client and server updates of 250 / 1000 ms, honest exchanges, "
               "replays, in any interleaving of 7 (thorough: 9) steps with C18_TimesOut / C18_NoFalseTimeout / "
               "C18_ForgeryDoesNotPostpone (observer's own generous and strict clocks) as invariants; C18_Connects on the model: any fault phase "
               "of up to 6 steps (thorough: two clients, 7 steps, 100 ms ticks), then heal and good rounds (DoPump) up to the bound; sampled behaviours replayed on the code; "
               "bounded liveness on the real code: lossy handshakes (each packet lost with p 0.3-0.7, duplicated), ticks 50/250/300/1000 ms, "
               "timeouts 1/5/none, fail-over from a silent first address with loss after the switch, limit raised/lowered at run time, restart "
               "with a fresh token (C18_Connects within the bound after heal), cut-off peers, forged / replayed / request-shaped datagrams "
               "during silence, C18_PendingExpires."),
    "C19": _nc("Netcode.tla (same configuration as C05) with C19_SameAddr / C19_Smaller / C19_SilentOnInvalid evaluated on every reply to an "
               "address without a completed handshake (lengths from the wire model: request 1078, challenge 333, denied 25); replay; seeded "
               "histories with padded, truncated, replayed, re-addressed requests, full servers and raw datagram shapes."),
    "C02": _msg("TLC explores ReliableUnordered workloads (three one-packet messages; small + 3-slice message; 3-slice message with acks and "
                "retransmission) with duplicates and application receives between any two arrivals; clauses C02_AtMostOnce, C02_Eager (a "
                "receive that returns nothing while a complete message is held back), C02_Live, C02_DupHarmless (a duplicate arriving while the "
                "receive budget is exactly used up by what is outstanding must not end the connection: 12-byte channel, messages of 2+5+5 "
                "bytes in three packets, any order, duplicates); all model states replayed on the code; "
                "seeded-random fault schedules."),
    "C03": _msg("TLC explores unreliable sliced + small messages and unreliable/reliable mixes with duplicates; clauses C03_Same (obtained "
                "bytes were submitted on that very connection/direction/channel) and C03_UnrelCount (copies obtained <= what the deliveries "
                "of every needed packet justify); message bytes are position dependent so misplaced or stitched fragments cannot collide "
                "with a submitted message; replay + seeded-random schedules with boundary sizes."),
    "C08": _msg("TLC explores acks, acks of acks and retransmissions (two small messages with 2+2 flushes; a 3-slice message) under any "
                "loss/reordering; the pending-ack range list as a function against its declarative contract for every canonical list "
                "(MC_WireContract: nothing that did not arrive is ever denoted); clauses C08_ReleaseSound (a message that left the sender's unacked set was completely handed to the "
                "peer) and C08_AckSound (every acknowledged sequence number was received); replay + seeded-random ack-loss schedules."),
    "C06": _msg("TLC injects one abstract hostile packet (every combination of channel right-kind/wrong-kind/absent, message id below/at/above "
                "the cursor/open reassembly/far, announced slice count, slice index inside/last/one past/far, payload length 0/1/1199/1200/1201, "
                "hostile acks, undecodable bytes) at any point of a session with an unreliable and a reliable sliced message in flight; clauses "
                "C06_NoPanic, C06_ProcessedOrDropped, C06_MemoryBounded, C06_StillUsable; exported to bytes and replayed; plus structural "
                "field-boundary packets, contradictory slice groups, one message id submitted twice with different sizes while buffered "
                "behind a gap (then drained), truncations, header-byte replacements and seeded random strings against "
                "a two-connection server whose second connection must still satisfy the C01-C03 clauses and complete."),
    "C09": _msg("TLC explores duplicates of slices after consumption, unreliable fragments and retransmission with the observer's own upper "
                "accounting of what may legitimately be counted: C09_Range, C09_NoLeak (send side: used <= bytes of unreleased messages; "
                "receive side: rmem <= complete-not-obtained bytes + n*1200 per legitimately open reassembly, unreliable ones closing 3 s after "
                "their last slice), C09_NoSpuriousDisconnect (a memory disconnect must be justified by what the channel legitimately holds plus "
                "the bytes the packet NEWLY brings - duplicates cost nothing; exhaustive on a channel whose budget is exactly what the "
                "outstanding messages need); replay + seeded-random schedules with tight budgets, ticks around 3000 ms, long runs."),
    "C11": _msg("MC_Server.tla (RenetServer over one Renet world per client): unicast and broadcast(_except) interleaved with flush / deliver / "
                "receive over two clients, loss, good rounds, also on a send channel that holds two messages but not three (a broadcast that "
                "finds one client saturated disconnects that client and reaches the other); clauses of C01-C03 per (client, direction, channel) stream make cross-delivery, "
                "duplication and missing broadcast targets visible, C11_NotStarved (a queued message for which the tick's budget still has room "
                "is not left behind because another channel stalls); replay + seeded-random 2-3 client schedules with one client hostile, "
                "stalled, disconnected or with a stalled reliable channel; the clauses of C08 on every stream (an ack caused by one channel's "
                "packet must not release another channel's message) over mixed-channel schedules with same-kind / asymmetric / sparse-id "
                "layouts; on the full UDP stack: two holders of tokens for ONE client id racing through the handshake (C11_Isolation: "
                "everything obtained under an id comes from the holder of that session) and departures that free slots around a bystander "
                "(C11_Bystander)."),
    "C12": _msg("MC_Server.tla: every sequence of up to 5 public calls (add/remove connection, disconnect, set_connected/connecting, transport "
                "disconnect, get_event, send on a 10-byte channel, flush, deliver, undecodable packet) over two ids; clauses C12_Absorbing, "
                "C12_Alternation, C12_Reason; every sequence of up to 6 local-client / table / status / traffic calls over one id "
                "(new_local_client, disconnect_local_client, process_local_client modelled in RenetSrv.tla); every model state replayed; "
                "seeded-random call sequences up to 25 calls including local clients; strict pass on all of them."),
    "C13": _msg("(message layer) TLC explores messages around the packing threshold with ids/sequences across varint width boundaries "
                "(PacketLen of the wire model <= 1300, no serialization failure); replay; seeded schedules with counters started at 2^6, 2^14, "
                "2^30, 2^62-400 and up to 150 widely spaced / descending / zig-zag sequence numbers feeding the pending ack ranges; (netcode "
                "layer) every datagram emitted in the handshake / payload histories (payloads up to 1300 bytes) is at most 1400 bytes."),
    "C14": _msg("TLC explores tight budgets (1200 B with a 2400 B reliable message, 100 B with three 100 B unreliable messages, 150+50 B) "
                "over several ticks; clauses C14_Bound, C14_Order, C14_UnreliableWhole; replay + seeded-random schedules over all channel "
                "orders and budgets 0..60000."),
    "C15": _msg("TLC explores retransmission timing (ticks of 100/300 ms against resend 300 ms, a small message; a 3-slice message with "
                "partial acks over three flushes); clauses C15_NotEarly, C15_Prompt, C15_NeverAfterAck; replay + seeded-random timing "
                "schedules (ticks shorter/equal/longer than resend, acks older than the 3 s horizon)."),
    "C01": {
        "category": "model_checking",
        "text": "TLC explores every interleaving of flush / tick / deliver (any subset, order; loss = never delivered or lost at heal) of a "
                "small ReliableOrdered workload on the implementation-shaped model with C01_Prefix and C01_Live (bounded liveness after heal) "
                "as invariants; every reachable model state is covered by an exported schedule that is replayed on the real code, whose "
                "recorded trace must satisfy the same clauses (monitor) and be a behaviour of the model (strict pass); plus seeded-random "
                "long fault schedules over mixed channels.",
        "note": MSG_NOTE,
        "technique": "TLA+/TLC model checking + model-exported schedule replay + TLC trace validation (monitor and strict)",
        "design_ref": "DESIGN.md §6 C01",
    },
}
