HOOK_COMMITS = ["d41ea61", "4c86597"]
NOTES = ("Every check is `bin/check <ID>`: TLC model-checks the focused configuration(s) of the implementation-shaped TLA+ model with the "
         "observer's property clauses as invariant, the model's state graph is exported as schedules, the Rust harness replays them (and "
         "seeded-random schedules) on the real code, and TLC validates the recorded traces against the observer (verdict) and against the "
         "model (conformance; a mismatch is reported as DRIFT, never as a violation). See DESIGN.md.")
NOT_APPLICABLE = {}
MSG_NOTE = ("Trusted: TLC; the observer module spec/RenetObs.tla (the property clauses); the harness projection (content interning, packet "
            "description through the crate's own decoder behind the `verif` feature). Exhaustive only within the stated small scopes; larger "
            "scopes are sampled by seeded-random schedules.")
CHECKS = {
    "C01": {
        "category": "model_checking",
        "text": "TLC explores every interleaving of flush / tick / deliver (any subset, order; loss = never delivered or lost at heal) of a "
                "small ReliableOrdered workload on the implementation-shaped model with C01_Prefix and C01_Live (bounded liveness after heal) "
                "as invariants; every reachable model state is covered by an exported schedule that is replayed on the real code, whose "
                "recorded trace must satisfy the same clauses (monitor) and be a behaviour of the model (strict pass); plus seeded-random "
                "long fault schedules over mixed channels.",
        "note": MSG_NOTE,
        "technique": "TLA+/TLC model checking + model-exported schedule replay + TLC trace validation (monitor and strict)",
        "design_ref": "DESIGN.md §6 C01",
    },
}
