HOOK_COMMITS = ["d41ea61", "4c86597"]
NOTES = ("Every check is `bin/check <ID>`: TLC model-checks the focused configuration(s) of the implementation-shaped TLA+ model with the "
         "observer's property clauses as invariant, the model's state graph is exported as schedules, the Rust harness replays them (and "
         "seeded-random schedules) on the real code, and TLC validates the recorded traces against the observer (verdict) and against the "
         "model (conformance; a mismatch is reported as DRIFT, never as a violation). See DESIGN.md.")
NOT_APPLICABLE = {}
MSG_NOTE = ("Trusted: TLC; the observer module spec/RenetObs.tla (the property clauses); the harness projection (content interning, packet "
            "description through the crate's own decoder behind the `verif` feature). Exhaustive only within the stated small scopes; larger "
            "scopes are sampled by seeded-random schedules.")
def _msg(text):
    return {"category": "model_checking", "text": text, "note": MSG_NOTE,
            "technique": "TLA+/TLC model checking + model-exported schedule replay + TLC trace validation (monitor and strict)"}


CHECKS = {
    "C02": _msg("TLC explores ReliableUnordered workloads (three one-packet messages; small + 3-slice message; 3-slice message with acks and "
                "retransmission) with duplicates and application receives between any two arrivals; clauses C02_AtMostOnce, C02_Eager (a "
                "receive that returns nothing while a complete message is held back), C02_Live; all model states replayed on the code; "
                "seeded-random fault schedules."),
    "C03": _msg("TLC explores unreliable sliced + small messages and unreliable/reliable mixes with duplicates; clauses C03_Same (obtained "
                "bytes were submitted on that very connection/direction/channel) and C03_UnrelCount (copies obtained <= what the deliveries "
                "of every needed packet justify); message bytes are position dependent so misplaced or stitched fragments cannot collide "
                "with a submitted message; replay + seeded-random schedules with boundary sizes."),
    "C08": _msg("TLC explores acks, acks of acks and retransmissions (two small messages with 2+2 flushes; a 3-slice message) under any "
                "loss/reordering; clauses C08_ReleaseSound (a message that left the sender's unacked set was completely handed to the "
                "peer) and C08_AckSound (every acknowledged sequence number was received); replay + seeded-random ack-loss schedules."),
    "C06": _msg("TLC injects one abstract hostile packet (every combination of channel right-kind/wrong-kind/absent, message id below/at/above "
                "the cursor/open reassembly/far, announced slice count, slice index inside/last/one past/far, payload length 0/1/1199/1200/1201, "
                "hostile acks, undecodable bytes) at any point of a session with an unreliable and a reliable sliced message in flight; clauses "
                "C06_NoPanic, C06_ProcessedOrDropped, C06_MemoryBounded, C06_StillUsable; exported to bytes and replayed; plus structural "
                "field-boundary packets, contradictory slice groups, truncations, header-byte replacements and seeded random strings against "
                "a two-connection server whose second connection must still satisfy the C01-C03 clauses and complete."),
    "C09": _msg("TLC explores duplicates of slices after consumption, unreliable fragments and retransmission with the observer's own upper "
                "accounting of what may legitimately be counted: C09_Range, C09_NoLeak (send side: used <= bytes of unreleased messages; "
                "receive side: rmem <= complete-not-obtained bytes + n*1200 per legitimately open reassembly, unreliable ones closing 3 s after "
                "their last slice), C09_NoSpuriousDisconnect; replay + seeded-random schedules with tight budgets, ticks around 3000 ms, long runs."),
    "C11": _msg("MC_Server.tla (RenetServer over one Renet world per client): unicast and broadcast(_except) interleaved with flush / deliver / "
                "receive over two clients, loss, good rounds; clauses of C01-C03 per (client, direction, channel) stream make cross-delivery, "
                "duplication and missing broadcast targets visible, C11_NotStarved (a queued message for which the tick's budget still has room "
                "is not left behind because another channel stalls); replay + seeded-random 2-3 client schedules with one client hostile, "
                "stalled, disconnected or with a stalled reliable channel."),
    "C12": _msg("MC_Server.tla: every sequence of up to 5 public calls (add/remove connection, disconnect, set_connected/connecting, transport "
                "disconnect, get_event, send on a 10-byte channel, flush, deliver, undecodable packet) over two ids; clauses C12_Absorbing, "
                "C12_Alternation, C12_Reason; every model state replayed; seeded-random call sequences up to 25 calls including local clients."),
    "C13": _msg("(message layer) TLC explores messages around the packing threshold with ids/sequences across varint width boundaries "
                "(PacketLen of the wire model <= 1300, no serialization failure); replay; seeded schedules with counters started at 2^6, 2^14, "
                "2^30, 2^62-400 and up to 150 widely spaced / descending / zig-zag sequence numbers feeding the pending ack ranges."),
    "C14": _msg("TLC explores tight budgets (1200 B with a 2400 B reliable message, 100 B with three 100 B unreliable messages, 150+50 B) "
                "over several ticks; clauses C14_Bound, C14_Order, C14_UnreliableWhole; replay + seeded-random schedules over all channel "
                "orders and budgets 0..60000."),
    "C15": _msg("TLC explores retransmission timing (ticks of 100/300 ms against resend 300 ms, a small message; a 3-slice message with "
                "partial acks over three flushes); clauses C15_NotEarly, C15_Prompt, C15_NeverAfterAck; replay + seeded-random timing "
                "schedules (ticks shorter/equal/longer than resend, acks older than the 3 s horizon)."),
    "C01": {
        "category": "model_checking",
        "text": "TLC explores every interleaving of flush / tick / deliver (any subset, order; loss = never delivered or lost at heal) of a "
                "small ReliableOrdered workload on the implementation-shaped model with C01_Prefix and C01_Live (bounded liveness after heal) "
                "as invariants; every reachable model state is covered by an exported schedule that is replayed on the real code, whose "
                "recorded trace must satisfy the same clauses (monitor) and be a behaviour of the model (strict pass); plus seeded-random "
                "long fault schedules over mixed channels.",
        "note": MSG_NOTE,
        "technique": "TLA+/TLC model checking + model-exported schedule replay + TLC trace validation (monitor and strict)",
        "design_ref": "DESIGN.md §6 C01",
    },
}
