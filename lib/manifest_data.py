HOOK_COMMITS = ["d41ea61", "4c86597"]
NOTES = ("Every check is `bin/check <ID>`: TLC model-checks the focused configuration(s) of the implementation-shaped TLA+ model with the "
         "observer's property clauses as invariant, the model's state graph is exported as schedules, the Rust harness replays them (and "
         "seeded-random schedules) on the real code, and TLC validates the recorded traces against the observer (verdict) and against the "
         "model (conformance; a mismatch is reported as DRIFT, never as a violation). See DESIGN.md.")
NOT_APPLICABLE = {}
MSG_NOTE = ("Trusted: TLC; the observer module spec/RenetObs.tla (the property clauses); the harness projection (content interning, packet "
            "description through the crate's own decoder behind the `verif` feature). Exhaustive only within the stated small scopes; larger "
            "scopes are sampled by seeded-random schedules.")
def _msg(text):
    return {"category": "model_checking", "text": text, "note": MSG_NOTE,
            "technique": "TLA+/TLC model checking + model-exported schedule replay + TLC trace validation (monitor and strict)"}


CHECKS = {
    "C02": _msg("TLC explores ReliableUnordered workloads (three one-packet messages; small + 3-slice message; 3-slice message with acks and "
                "retransmission) with duplicates and application receives between any two arrivals; clauses C02_AtMostOnce, C02_Eager (a "
                "receive that returns nothing while a complete message is held back), C02_Live; all model states replayed on the code; "
                "seeded-random fault schedules."),
    "C03": _msg("TLC explores unreliable sliced + small messages and unreliable/reliable mixes with duplicates; clauses C03_Same (obtained "
                "bytes were submitted on that very connection/direction/channel) and C03_UnrelCount (copies obtained <= what the deliveries "
                "of every needed packet justify); message bytes are position dependent so misplaced or stitched fragments cannot collide "
                "with a submitted message; replay + seeded-random schedules with boundary sizes."),
    "C08": _msg("TLC explores acks, acks of acks and retransmissions (two small messages with 2+2 flushes; a 3-slice message) under any "
                "loss/reordering; clauses C08_ReleaseSound (a message that left the sender's unacked set was completely handed to the "
                "peer) and C08_AckSound (every acknowledged sequence number was received); replay + seeded-random ack-loss schedules."),
    "C14": _msg("TLC explores tight budgets (1200 B with a 2400 B reliable message, 100 B with three 100 B unreliable messages, 150+50 B) "
                "over several ticks; clauses C14_Bound, C14_Order, C14_UnreliableWhole; replay + seeded-random schedules over all channel "
                "orders and budgets 0..60000."),
    "C15": _msg("TLC explores retransmission timing (ticks of 100/300 ms against resend 300 ms, a small message; a 3-slice message with "
                "partial acks over three flushes); clauses C15_NotEarly, C15_Prompt, C15_NeverAfterAck; replay + seeded-random timing "
                "schedules (ticks shorter/equal/longer than resend, acks older than the 3 s horizon)."),
    "C01": {
        "category": "model_checking",
        "text": "TLC explores every interleaving of flush / tick / deliver (any subset, order; loss = never delivered or lost at heal) of a "
                "small ReliableOrdered workload on the implementation-shaped model with C01_Prefix and C01_Live (bounded liveness after heal) "
                "as invariants; every reachable model state is covered by an exported schedule that is replayed on the real code, whose "
                "recorded trace must satisfy the same clauses (monitor) and be a behaviour of the model (strict pass); plus seeded-random "
                "long fault schedules over mixed channels.",
        "note": MSG_NOTE,
        "technique": "TLA+/TLC model checking + model-exported schedule replay + TLC trace validation (monitor and strict)",
        "design_ref": "DESIGN.md §6 C01",
    },
}
