"""Schedule generators for the netcode world (rvh nc)."""
import random

REQ_LEN = 1078
ALL = ["C04", "C05", "C07", "C10", "C13", "C17", "C18", "C19"]


class NS:
    """Builder for one netcode schedule; keeps the server / client clocks so that tokens get sensible timestamps."""

    def __init__(self, sid, props, max_clients=2, server_addrs=1, start_ms=0, secure=True):
        self.s = {"id": sid, "cfg": {"max_clients": max_clients, "server_addrs": server_addrs, "start_ms": start_ms, "props": props}, "steps": []}
        if not secure:
            # ServerAuthentication::Unsecure: all-zero connect key (token key "Z"), host list not checked
            self.s["cfg"]["secure"] = False
        self.t = start_ms
        self.ct = {}
        self.n = 0
        self.tag = 1

    def add(self, **kw):
        kw = {("as" if k == "as_" else "from" if k == "from_" else k): v for k, v in kw.items() if v is not None}
        self.s["steps"].append(kw)

    def name(self, p="d"):
        self.n += 1
        return "%s%d" % (p, self.n)

    def token(self, t, cid, ud=None, hosts=(1,), expire_s=30, timeout_s=5, key="K", proto="P", tamper=None, create_ms=None):
        self.add(a="token", t=t, id=cid, ud=(cid * 3 + 1 if ud is None else ud), hosts=list(hosts), create_ms=(self.t if create_ms is None else create_ms),
                 expire_s=expire_s, timeout_s=timeout_s, key=key, proto=proto, tamper=tamper)

    def client(self, c, t, addr):
        self.ct[c] = self.t
        self.add(a="client", c=c, t=t, addr=addr, now_ms=self.t)

    def cupdate(self, c, dt, as_=None):
        self.ct[c] = self.ct.get(c, 0) + dt
        self.add(a="cupdate", c=c, dt=dt, as_=as_)

    def supdate(self, dt, as_=None):
        self.t += dt
        self.add(a="supdate", dt=dt, as_=as_)

    def sdeliver(self, d, from_=None, mut=None, nonauth=None, as_=None, shape=None, ctx=None):
        self.add(a="sdeliver", d=d, from_=from_, mut=mut, nonauth=nonauth, as_=as_, shape=shape, ctx=ctx)

    def cdeliver(self, c, d, mut=None, nonauth=None, shape=None, ctx=None):
        self.add(a="cdeliver", c=c, d=d, mut=mut, nonauth=nonauth, shape=shape, ctx=ctx)

    def pump(self, cs, dt=100, n=1):
        for c in cs:
            self.ct[c] = self.ct.get(c, 0) + dt * n
        self.t += dt * n
        self.add(a="pump", cs=list(cs), dt=dt, n=n)

    def cpayload(self, c, ln=20, as_=None):
        tag = self.tag
        self.tag += 1
        self.add(a="cpayload", c=c, tag=tag, len=ln, as_=as_)
        return tag

    def spayload(self, cid, ln=20, as_=None):
        tag = self.tag
        self.tag += 1
        self.add(a="spayload", id=cid, tag=tag, len=ln, as_=as_)
        return tag

    def connect(self, c, t, cid, addr, dt=100, rounds=4, **tokkw):
        self.token(t, cid, **tokkw)
        self.client(c, t, addr)
        self.pump([c], dt=dt, n=rounds)

    def heal(self, cs, bound):
        self.add(a="mark", mark="heal", cs=list(cs), bound=bound)


def rand_mut(rng, maxlen):
    r = rng.random()
    if r < 0.6:
        return {"bit": rng.randrange(0, max(8, maxlen * 8))}
    if r < 0.85:
        return {"trunc": rng.choice([0, 1, 2, 17, 18, 19, 20, 24, 25, 33, maxlen - 1, max(0, maxlen - 16), max(0, maxlen - 17)])}
    return {"setbyte": [0, rng.randrange(0, 256)]}


# ---------------------------------------------------------------------------------------------------------------
# C04: payload histories
# ---------------------------------------------------------------------------------------------------------------
def payload_histories(rng, props, n, full=False):
    out = []
    for i in range(n):
        sc = NS("pay-%d" % i, props, max_clients=3)
        sc.connect("c1", "T1", 11, 1)
        sc.connect("c2", "T2", 22, 2)              # a second session, owned by the attacker
        names = []
        mode = rng.choice(["shuffle", "window", "restart", "shuffle"])
        k = rng.randint(2, 6)
        for j in range(k):
            if rng.random() < 0.5:
                nm = sc.name("cp")
                sc.cpayload("c1", rng.choice([0, 1, 20, 1300]), as_=nm)
                names.append(("S", nm))
            else:
                nm = sc.name("sp")
                sc.spayload(11, rng.choice([0, 1, 20, 1300]), as_=nm)
                names.append(("C", nm))
            if mode == "window" and j == 0:
                # let the sender's counter run ahead by about one window without delivering
                jump = rng.choice([254, 255, 256, 257, 511, 512])
                for _ in range(jump):
                    sc.cpayload("c1", 0) if names[-1][0] == "S" else sc.spayload(11, 0)
        pres = []
        for to, nm in names:
            reps = rng.randint(1, 3)
            for r in range(reps):
                pres.append((to, nm, None, None))
            if rng.random() < 0.7:
                pres.append((to, nm, rand_mut(rng, 60), None))
            if rng.random() < 0.4 and to == "S":
                pres.append((to, nm, None, rng.choice([2, 3])))   # re-addressed
        rng.shuffle(pres)
        for to, nm, mut, frm in pres:
            if to == "S":
                sc.sdeliver(nm, from_=frm, mut=mut)
            else:
                sc.cdeliver("c1", nm, mut=mut)
                if rng.random() < 0.2:
                    sc.cdeliver("c2", nm)                       # a datagram sealed for another session
        # packets sealed under the attacker's own session keys, another protocol id, or a foreign key
        for _ in range(rng.randint(0, 3)):
            kind = rng.choice(["Payload", "KeepAlive", "Disconnect"])
            sc.add(a="scraft", kind=kind, tok=rng.choice(["T2", "nokey"]), seq=rng.choice([0, 1, 5, 300, 1000]), tag=9000 + i, len=20,
                   proto=rng.choice(["P", "Q"]), **{"from": 1}, nonauth=True)
            sc.add(a="ccraft", c="c1", kind=kind, tok=rng.choice(["T2", "nokey"]), dir="s2c", seq=rng.choice([0, 1, 5, 300]), tag=9500 + i, len=20,
                   proto=rng.choice(["P", "Q"]), nonauth=True)
        sc.add(a="scraft", kind="Payload", tok="T1", seq=rng.choice([3, 50]), tag=9900 + i, len=8, proto="Q", **{"from": 1}, nonauth=True)
        if mode == "restart":
            # the session ends; everything recorded so far is presented again from the same address
            if rng.random() < 0.5:
                sc.add(a="cdisconnect", c="c1", as_="bye")
                sc.sdeliver("bye")
            else:
                sc.add(a="sdisconnect", id=11)
            sc.supdate(100)
            for d in range(1, 40):
                if rng.random() < 0.8:
                    sc.add(a="sdeliver", d=d, **{"from": 1}, ctx="after_session")
        sc.pump(["c1", "c2"], dt=100, n=2)
        out.append(sc.s)
    return out


def denied_retry_histories(rng, props, n):
    """One slot.  X is challenged while the slot is free, Y takes the slot, X's response is refused (the denial is lost or arrives
    late), Y leaves, a delayed copy of X's request re-opens the half-open entry and X's next response is admitted: every reply the
    server sealed for X on the way -- challenges, the denial, the first keep-alive, payloads -- under X's key must carry its own
    sequence number (C17), X ends up connected (C18), the table never holds two sessions (C10)."""
    out = []
    for i in range(n):
        dt = rng.choice([100, 250])
        sc = NS("denied-retry-%d" % i, props, max_clients=1)
        sc.token("TX", 10, timeout_s=rng.choice([5, -1]), expire_s=60)
        sc.token("TY", 20, timeout_s=5, expire_s=60)
        sc.client("x", "TX", 1)
        sc.client("y", "TY", 2)
        sc.cupdate("x", dt, as_="xreq")
        sc.sdeliver("xreq", as_="xchal")
        sc.cdeliver("x", "xchal")
        sc.pump(["y"], dt=250, n=3)                       # y connects and takes the only slot
        # x answers: refused, once or several times; the denials are lost (or the last one arrives after x was admitted)
        dens = []
        for _ in range(rng.randint(1, 3)):
            r = sc.name("xresp")
            sc.cupdate("x", 250, as_=r)
            d = sc.name("den")
            sc.sdeliver(r, as_=d)
            dens.append(d)
            if rng.random() < 0.5:
                # a retransmitted request while the server is full: another denial, sealed with the same key
                d2 = sc.name("den")
                sc.sdeliver("xreq", as_=d2)
                dens.append(d2)
        # y leaves
        how = rng.choice(["client", "server"])
        if how == "client":
            sc.add(a="cdisconnect", c="y", as_="ybye")
            sc.sdeliver("ybye")
        else:
            sc.add(a="sdisconnect", id=20)
        sc.supdate(dt)
        # the delayed copy of x's request re-opens the half-open entry; x's next response is admitted
        sc.sdeliver("xreq", as_="xchal2")
        if rng.random() < 0.5:
            sc.cdeliver("x", "xchal2")
        r = sc.name("xresp")
        sc.cupdate("x", 250, as_=r)
        ka = sc.name("ka")
        sc.sdeliver(r, as_=ka)
        sc.cdeliver("x", ka)
        if rng.random() < 0.5 and dens:
            sc.cdeliver("x", rng.choice(dens))            # a late denial: x is connected, it must not matter
        for _ in range(rng.randint(1, 3)):
            nm = sc.name("sp")
            sc.spayload(10, 20, as_=nm)
            sc.cdeliver("x", nm)
        sc.heal(["x"], 2 * (2 * -(-250 // dt) + 2) + 4)
        sc.pump(["x"], dt=dt, n=2 * (2 * -(-250 // dt) + 2) + 6)
        out.append(sc.s)
    return out


def takeover_histories(rng, props, n):
    """A client gives up in the middle of its handshake after k datagrams (its Disconnect, sealed with the keys of ITS token,
    reaches the server's half-open entry, or is lost), and a restarted client -- a fresh token for the same id, the same
    address -- connects and exchanges payloads numbered from 0 again: nothing of the old attempt (keys, replay window,
    counters) may survive in the new session, every genuine payload surfaces the first time it arrives."""
    out = []
    for i in range(n):
        sc = NS("takeover-%d" % i, props, max_clients=2)
        sc.token("TA", 11, timeout_s=5, expire_s=60)
        sc.client("a", "TA", 1)
        # the old attempt: request(s), challenge, then 0..4 responses that get lost, then the farewell
        for _ in range(rng.randint(1, 3)):
            nm = sc.name("rq")
            sc.cupdate("a", 250, as_=nm)
            ch = sc.name("ch")
            sc.sdeliver(nm, as_=ch)
        sc.cdeliver("a", ch)
        for _ in range(rng.randint(0, 4)):
            sc.cupdate("a", 250)            # a response that never arrives
        sc.add(a="cdisconnect", c="a", as_="bye")
        if rng.random() < 0.8:
            sc.sdeliver("bye")
        if rng.random() < 0.3:
            sc.supdate(rng.choice([100, 1000]))
        # the restarted program: a fresh token for the same id from the same address
        sc.token("TB", 11, timeout_s=5, expire_s=60)
        sc.client("b", "TB", 1)
        sc.pump(["b"], dt=250, n=4)
        names = []
        for j in range(rng.randint(4, 9)):
            if rng.random() < 0.7:
                nm = sc.name("cp")
                sc.cpayload("b", rng.choice([1, 20, 300]), as_=nm)
                names.append(("S", nm))
            else:
                nm = sc.name("sp")
                sc.spayload(11, rng.choice([1, 20]), as_=nm)
                names.append(("C", nm))
            if rng.random() < 0.3:
                sc.pump(["b"], dt=250, n=1)
        if rng.random() < 0.5:
            rng.shuffle(names)
        for to, nm in names:
            if to == "S":
                sc.sdeliver(nm)
            else:
                sc.cdeliver("b", nm)
        # the old farewell once more, now that the address has a session with other keys
        sc.sdeliver("bye", nonauth=True)
        sc.pump(["b"], dt=250, n=2)
        out.append(sc.s)
    return out


# ---------------------------------------------------------------------------------------------------------------
# C05 / C10 / C19: handshake attacks and table histories
# ---------------------------------------------------------------------------------------------------------------
def handshake_histories(rng, props, n, full=False):
    out = []
    for i in range(n):
        maxc = rng.choice([1, 2, 2, 3])
        start = rng.choice([0, 5000, 29000])
        sc = NS("hs-%d" % i, props, max_clients=maxc, start_ms=start)
        # tokens: a victim, two tokens of the attacker (one of them for the victim's id), plus invalid classes
        toks = {"TV": (10, 1), "TA": (20, 2), "TB": (30, 3), "TV2": (10, 2)}
        for t, (cid, addr) in toks.items():
            sc.token(t, cid, timeout_s=rng.choice([5, 5, -1]))
        bad = {
            "TX_exp": dict(expire_s=rng.choice([1, 2])),
            "TX_key": dict(key="F"),
            "TX_proto": dict(proto="Q"),
            "TX_host": dict(hosts=rng.choice([(2,), (51,), (51, 2)])),     # 51: the server's IP address with another port
            "TX_tamper_exp": dict(tamper={"field": "expire", "delta": rng.choice([1, 100, -1])}),
            "TX_tamper_proto": dict(proto="Q", tamper={"field": "proto", "value": 7}),
            "TX_tamper_priv": dict(tamper={"field": "private_bit", "bit": rng.randrange(0, 8192)}),
            "TX_tamper_xn": dict(tamper={"field": "xnonce_bit", "bit": rng.randrange(0, 192)}),
        }
        for t, kw in bad.items():
            sc.token(t, 40, **kw)
        clients = {}
        def mk(c, t, addr):
            sc.client(c, t, addr)
            clients[c] = (t, addr)
        mk("v", "TV", 1)
        mk("a", "TA", 2)
        mk("b", "TB", 3)
        if rng.random() < 0.5:
            mk("v2", "TV2", 2 if rng.random() < 0.5 else 1)
        for t in rng.sample(list(bad), rng.randint(1, 4)):
            mk("x_" + t, t, rng.choice([1, 2, 3, 4]))
        steps = rng.randint(8, 40)
        for _ in range(steps):
            r = rng.random()
            c = rng.choice(list(clients))
            if r < 0.30:
                nm = sc.name("u")
                sc.cupdate(c, rng.choice([0, 100, 250, 300]), as_=nm)
                if rng.random() < 0.8:
                    rep = sc.name("r")
                    sc.sdeliver(nm, as_=rep)
                    if rng.random() < 0.8:
                        sc.cdeliver(c, rep)
                    if c.startswith("x_") and rng.random() < 0.7:
                        # the holder of an invalid token does what it can with whatever the server answered: a response sealed
                        # with that token's keys (under the server's protocol id) echoing the reply
                        sc.add(a="scraft", kind="Response", tok=clients[c][0], seq=rng.choice([0, 1, 7]), chal_from=rep, **{"from": clients[c][1]})
            elif r < 0.40:
                sc.supdate(rng.choice([100, 250, 1000]))
            elif r < 0.50:
                # replay / re-address something recorded earlier, sometimes repeatedly from the same other address
                d = rng.randint(1, 30)
                frm = rng.choice([None, None, 1, 2, 3, 4])
                for _ in range(rng.choice([1, 1, 2, 3])):
                    sc.sdeliver(d, from_=frm)
            elif r < 0.62:
                # cross-use: a response sealed with the attacker's own keys that echoes a challenge issued for another session
                sc.add(a="scraft", kind="Response", tok=rng.choice(["TA", "TB", "TV2"]), seq=rng.choice([1, 2, 7]), chal_from=rng.randint(1, 30),
                       **{"from": rng.choice([1, 2, 3])})
            elif r < 0.68:
                sc.add(a="scraft", kind="Response", tok=rng.choice(["TA", "TB"]), seq=3, chal_from=0, cid=rng.choice([10, 20]), cud=7, cseq=rng.choice([1, 2]),
                       **{"from": rng.choice([2, 3])})
            elif r < 0.76:
                t = rng.choice(list(toks) + list(bad))
                mut = None
                if rng.random() < 0.3:
                    mut = rng.choice([{"pad": rng.choice([1, 100, 322])}, {"trunc": rng.choice([1077, 1000, 18, 17])}])
                sc.add(a="srequest", t=t, **{"from": rng.choice([1, 2, 3, 4])}, mut=mut, nonauth=(True if (mut and "trunc" in mut) else None))
            elif r < 0.82:
                cid = rng.choice([10, 20, 30])
                sc.add(a="sdisconnect", id=cid)
            elif r < 0.88:
                nm = sc.name("bye")
                sc.add(a="cdisconnect", c=c, as_=nm)
                sc.sdeliver(nm)
            elif r < 0.93:
                sc.add(a="setmax", n=rng.choice([1, 2, 3]))
            else:
                sc.pump([c], dt=rng.choice([100, 250]), n=rng.randint(1, 3))
        sc.supdate(100)
        out.append(sc.s)
    return out


def expiry_histories(rng, props):
    """Requests presented with the server clock around the token's expiry instant."""
    out = []
    i = 0
    for exp in (2, 10):
        for off_ms in (-1001, -1000, -1, 0, 1, 999, 1000, 1001):
            for first in ("request", "response"):
                i += 1
                sc = NS("exp-%d" % i, props, max_clients=2)
                sc.token("T", 10, expire_s=exp, timeout_s=5)
                sc.client("v", "T", 1)
                target = exp * 1000 + off_ms
                if first == "request":
                    # the very first request arrives around the expiry instant
                    sc.supdate(max(0, target))
                    sc.cupdate("v", 0, as_="rq")
                    sc.sdeliver("rq", as_="ch")
                    sc.cdeliver("v", "ch")
                    sc.cupdate("v", 0, as_="rs")
                    sc.sdeliver("rs", as_="ka")
                else:
                    # challenged in time, the response arrives around the expiry instant
                    sc.cupdate("v", 0, as_="rq")
                    sc.sdeliver("rq", as_="ch")
                    sc.cdeliver("v", "ch")
                    sc.cupdate("v", 0, as_="rs")
                    sc.supdate(max(0, target))
                    sc.sdeliver("rs", as_="ka")
                sc.supdate(100)
                out.append(sc.s)
    return out


# ---------------------------------------------------------------------------------------------------------------
# C07 / C17: datagram shapes, bits, truncations, token bytes
# ---------------------------------------------------------------------------------------------------------------
def context_prefix(sc, ctx):
    """Brings the server / client c1 into a protocol state; returns names of sample datagrams recorded on the way."""
    sc.token("T1", 11)
    sc.token("T2", 22)
    sc.client("c1", "T1", 1)
    sc.connect("c2", "T2", 22, 2)
    names = {}
    if ctx in ("pending", "connected", "client_responding", "client_connected", "client_disconnected"):
        sc.cupdate("c1", 100, as_="rq")
        sc.sdeliver("rq", as_="ch")
        names.update(Request="rq", Challenge="ch")
    if ctx in ("client_responding", "connected", "client_connected", "client_disconnected"):
        sc.cdeliver("c1", "ch")
    if ctx in ("connected", "client_connected", "client_disconnected"):
        sc.cupdate("c1", 100, as_="rs")
        sc.sdeliver("rs", as_="ka")
        sc.cdeliver("c1", "ka")
        names.update(Response="rs", KeepAlive="ka")
        sc.cpayload("c1", 20, as_="cp")
        sc.sdeliver("cp")
        sc.spayload(11, 20, as_="sp")
        sc.cdeliver("c1", "sp")
        names.update(Payload="cp", SPayload="sp")
    if ctx == "client_disconnected":
        sc.add(a="cdisconnect", c="c1", as_="bye")
        names.update(Disconnect="bye")
    # let some time pass so that a refreshed timeout is visible in the snapshots
    sc.supdate(300)
    if ctx != "client_disconnected":
        sc.add(a="cupdate", c="c1", dt=120)
    return names


def shape_datagrams(rng, full):
    """Raw datagram shapes: all 256 prefix bytes x length classes x sequence values."""
    out = []
    seqs = [0, 1, 255, 256, (1 << 32), (1 << 64) - 257, (1 << 64) - 1]
    for prefix in range(256):
        slen = prefix >> 4
        lens = [0, 1, 17, 18, 19, 1 + slen + 15, 1 + slen + 16, 1 + slen + 17, 1 + slen + 16 + 8, 1078, 1400]
        for ln in (lens if full else rng.sample(lens, 3) + [1 + slen + 16, 18]):
            if ln < 0:
                continue
            seq = rng.choice(seqs)
            body = bytes([prefix]) + seq.to_bytes(8, "little")[:max(0, min(slen, 8))] + bytes(rng.getrandbits(8) for _ in range(max(0, ln - 1 - min(slen, 8))))
            out.append(("prefix%02x" % prefix, body[:ln] if ln < len(body) else body + bytes(ln - len(body))))
    return out


def core_shapes():
    """Shapes presented in EVERY protocol state: request-shaped datagrams (type nibble 0, no key needed to parse them)
    of all announced sequence lengths, all-zero / all-one strings around the size thresholds."""
    out = []
    for hi in range(16):
        for ln in (REQ_LEN - 1, REQ_LEN, REQ_LEN + 1, 1400):
            out.append(("reqshape%x" % hi, bytes([hi << 4]) + bytes(ln - 1)))
            out.append(("reqshape%x" % hi, bytes([hi << 4]) + b"NETCODE 1.02\0" + bytes(ln - 14)))
    for ln in (0, 1, 2, 16, 17, 18, 19, 1077, 1078, 1079, 1400):
        out.append(("zeros", bytes(ln)))
        out.append(("ones", bytes([0xFF]) * ln))
    return out


def shape_schedules(rng, props, full=False):
    out = []
    shapes = shape_datagrams(rng, full)
    rng.shuffle(shapes)
    ctxs = ["unknown", "pending", "connected", "client_requesting", "client_responding", "client_connected", "client_disconnected"]
    per = 12
    groups = [(shapes[i:i + per], ctxs[(i // per) % len(ctxs)]) for i in range(0, len(shapes), per)]
    core = core_shapes()
    for ctx in ctxs:
        groups += [(core[j:j + 40], ctx) for j in range(0, len(core), 40)]
    for i, (group, ctx) in enumerate(groups):
        sc = NS("shape-%d-%s" % (i, ctx), props, max_clients=3)
        context_prefix(sc, ctx)
        for name, b in group:
            if ctx.startswith("client"):
                sc.add(a="craw", c="c1", hex=b.hex(), shape=name, ctx=ctx)
            else:
                frm = {"unknown": 4, "pending": 1, "connected": 1}[ctx]
                sc.add(a="sraw", hex=b.hex(), **{"from": frm}, shape=name, ctx=ctx)
        # genuine traffic afterwards is still accepted
        sc.pump(["c1", "c2"], dt=100, n=3)
        sc.cpayload("c2", 10, as_="after")
        sc.sdeliver("after")
        out.append(sc.s)
    return out


def forged_then_genuine(rng, props, n):
    """Forged datagrams announcing sequence numbers the genuine peer has not used yet (garbage body, foreign key or another
    session's key), then the genuine traffic: it must still be accepted (C07), in both directions."""
    out = []
    for i in range(n):
        sc = NS("forged-%d" % i, props, max_clients=3)
        sc.connect("c1", "T1", 11, 1)
        sc.connect("c2", "T2", 22, 2)
        sc.supdate(300)
        far = rng.choice([False, False, True])
        base = rng.choice([0, 2, 3])
        seqs = [rng.choice([1 << 20, 1 << 40]) if far else base + k for k in range(rng.randint(1, 12))]
        for s in seqs:
            kind = rng.choice(["Payload", "KeepAlive", "Disconnect"])
            tok = rng.choice(["T2", "nokey"])
            sc.add(a="scraft", kind=kind, tok=tok, seq=str(s), tag=9000, len=8, **{"from": 1}, nonauth=True, shape="forged_seq", ctx="connected")
            sc.add(a="ccraft", c="c1", kind=kind, tok=tok, dir="s2c", seq=str(s), tag=9001, len=8, nonauth=True, shape="forged_seq", ctx="client_connected")
        for k in range(rng.randint(3, 8)):
            nm = sc.name("g")
            sc.cpayload("c1", 10, as_=nm)
            sc.sdeliver(nm)
            nm = sc.name("h")
            sc.spayload(11, 10, as_=nm)
            sc.cdeliver("c1", nm)
        sc.pump(["c1", "c2"], dt=100, n=3)
        out.append(sc.s)
    return out


def bit_schedules(rng, props, full=False):
    """Every bit position (sampled in the quick tier) and every truncation length of a sample datagram of every kind."""
    out = []
    kinds = [("Request", "S", REQ_LEN), ("Response", "S", 326), ("Payload", "S", 40), ("KeepAlive", "C", 26), ("Challenge", "C", 326),
             ("SPayload", "C", 40), ("Disconnect", "S", 19)]
    for kind, to, approx in kinds:
        nbits = approx * 8
        bits = list(range(nbits)) if full else sorted(set(rng.sample(range(nbits), min(nbits, 160)) + list(range(0, min(nbits, 24 * 8)))))
        truncs = list(range(0, approx + 1)) if full else sorted(set(rng.sample(range(approx + 1), min(approx + 1, 40)) + [0, 1, 17, 18, 19, approx - 1]))
        muts = [{"bit": b} for b in bits] + [{"trunc": t} for t in truncs]
        per = 150
        for i in range(0, len(muts), per):
            ctx = {"Request": "pending", "Response": "connected", "Payload": "connected", "KeepAlive": "connected", "Challenge": "pending",
                   "SPayload": "connected", "Disconnect": "client_disconnected"}[kind]
            sc = NS("bits-%s-%d" % (kind, i), props, max_clients=3)
            names = context_prefix(sc, ctx)
            if kind not in names:
                continue
            # a fresh client for the client-side presentations so that an accepted tampered packet would show
            for m in muts[i:i + per]:
                # bits of a request that no key binds: the sequence-length nibble of the prefix byte and nothing else
                nonauth = True
                if kind == "Request" and "bit" in m and m["bit"] in (4, 5, 6, 7):
                    nonauth = False
                if to == "S":
                    sc.sdeliver(names[kind], mut=m, nonauth=nonauth, shape=kind, ctx=ctx)
                else:
                    sc.cdeliver("c1", names[kind], mut=m, nonauth=nonauth, shape=kind, ctx=ctx)
            sc.pump(["c2"], dt=100, n=2)
            sc.cpayload("c2", 10, as_="after")
            sc.sdeliver("after")
            out.append(sc.s)
    return out


def token_byte_schedules(rng, props, full=False):
    """Hostile bytes parsed as a connect token (ConnectToken::read + NetcodeClient::new + update)."""
    import struct
    def token_bytes(naddr, entries, create=0, expire=30, timeout=5, version=b"NETCODE 1.02\0"):
        b = struct.pack("<Q", 7) + version + struct.pack("<QQQ", 7, create, expire) + bytes(24) + bytes(1024) + struct.pack("<i", timeout)
        b += struct.pack("<I", naddr)
        for e in entries:
            if e == "v4":
                b += bytes([1, 127, 0, 0, 1]) + struct.pack("<H", 5000)
            elif e == "v6":
                b += bytes([2]) + bytes(16) + struct.pack("<H", 5000)
            elif e == "none":
                b += bytes([0])
            else:
                b += bytes([9])
        return b + bytes(64)
    cases = []
    for naddr in (0, 1, 2, 32, 33, (1 << 32) - 1):
        for first in ("v4", "v6", "none", "bad"):
            n_entries = min(naddr, 33) if naddr < 40 else 3
            cases.append(("naddr%d-%s" % (naddr, first), token_bytes(naddr, [first] + ["v4"] * max(0, n_entries - 1))))
    for create, expire in ((0, 0), (10, 5), (5, 10), ((1 << 64) - 1, 0), (0, (1 << 64) - 1)):
        cases.append(("times-%d-%d" % (create % 1000, expire % 1000), token_bytes(1, ["v4"], create=create, expire=expire)))
    for t in (0, -1, 1, (1 << 31) - 1, -(1 << 31)):
        cases.append(("timeout%d" % t, token_bytes(1, ["v4"], timeout=t)))
    good = token_bytes(2, ["v4", "v6"])
    for n in (list(range(0, len(good) + 1)) if full else sorted(set(rng.sample(range(len(good)), 60) + [0, 1, 8, 21, 29, 45, 69, 1093, 1097, 1101, len(good) - 1]))):
        cases.append(("trunc%d" % n, good[:n]))
    cases.append(("badversion", token_bytes(1, ["v4"], version=b"NETCODE 1.01\0")))
    out = []
    for i in range(0, len(cases), 40):
        sc = NS("tokbytes-%d" % i, props)
        for name, b in cases[i:i + 40]:
            sc.add(a="tokenbytes", hex=b.hex(), shape=name, now_ms=rng.choice([0, 1000]), dt=rng.choice([100, 6000]))
        out.append(sc.s)
    return out


# ---------------------------------------------------------------------------------------------------------------
# C18: liveness and timeouts
# ---------------------------------------------------------------------------------------------------------------
def lossy_handshake(sc, rng, c, dt, rounds, loss, dup=0.1):
    """The pump with per-packet loss / duplication decisions made by the schedule."""
    for _ in range(rounds):
        nm = sc.name("u")
        sc.cupdate(c, dt, as_=nm)
        if rng.random() >= loss:
            rep = sc.name("r")
            sc.sdeliver(nm, as_=rep)
            if rng.random() < dup:
                sc.sdeliver(nm)
            if rng.random() >= loss:
                sc.cdeliver(c, rep)
                if rng.random() < dup:
                    sc.cdeliver(c, rep)
        ups = sc.name("s")
        sc.supdate(dt, as_=ups)
        if rng.random() >= loss:
            sc.cdeliver(c, "lastto:" + c)


def proto_bit_schedules(rng, props):
    """Sealed datagrams opened under a protocol id that differs in one bit (all 64 bits): server side through packets sealed
    with the session's own key for the other protocol id, client side through a client whose copy of the token carries it."""
    out = []
    sc = NS("protobits-server", props, max_clients=3)
    sc.connect("c1", "T1", 11, 1)
    sc.supdate(300)
    for bit in range(64):
        pid = 7 ^ (1 << bit)
        for kind in ("Payload", "KeepAlive", "Disconnect"):
            sc.add(a="scraft", kind=kind, tok="T1", seq=20 + bit, tag=8000 + bit, len=8, pid=str(pid), **{"from": 1}, nonauth=True, shape="proto_bit", ctx="connected")
        sc.add(a="ccraft", c="c1", kind="Payload", tok="T1", dir="s2c", seq=20 + bit, tag=8100 + bit, len=8, pid=str(pid), nonauth=True, shape="proto_bit", ctx="client_connected")
    sc.pump(["c1"], dt=100, n=2)
    out.append(sc.s)
    for lo in range(0, 64, 16):
        sc = NS("protobits-client-%d" % lo, props, max_clients=3)
        for bit in range(lo, lo + 16):
            # the client holds the right keys but another protocol id: a challenge sealed for protocol 7 must not open
            sc.token("T%d" % bit, 11 + bit, tamper={"field": "proto_only", "value": str(7 ^ (1 << bit))})
            sc.client("c%d" % bit, "T%d" % bit, 1)
            sc.cupdate("c%d" % bit, 100)
            sc.add(a="ccraft", c="c%d" % bit, kind="Challenge", tok="T%d" % bit, dir="s2c", seq=0, pid="7", chal_from=0, cid=11 + bit, cud=1, cseq=1,
                   nonauth=True, shape="proto_bit", ctx="client_requesting")
        out.append(sc.s)
    return out


def liveness_schedules(rng, props, n, full=False):
    out = []
    for i in range(n):
        mode = rng.choice(["handshake", "handshake", "failover", "silent_client", "silent_server", "alive", "forgery", "pending_expire", "limit", "restart",
                           "unsecure"])
        dt = rng.choice([50, 250, 300, 1000])
        timeout = rng.choice([1, 5, 5, -1])
        maxc = rng.choice([1, 2])
        two = mode == "failover"
        sc = NS("live-%d-%s" % (i, mode), props, max_clients=maxc, server_addrs=1, secure=(mode != "unsecure"))
        if mode in ("handshake", "limit", "unsecure"):
            if mode == "unsecure":
                # a self-made token (zero key) that lists a host the server does not know next to the real one, or only the real one
                sc.token("T1", 11, timeout_s=(timeout if timeout > 0 else 5), expire_s=120, key="Z", hosts=rng.choice([(1,), (1, 7)]))
            else:
                sc.token("T1", 11, timeout_s=(timeout if timeout > 0 else 5), expire_s=120)
            sc.client("c1", "T1", 1)
            if mode == "limit":
                # the limit is raised (or lowered and raised again) at run time; an extra client occupies the first slot
                sc.connect("c0", "T0", 5, 3, timeout_s=-1)
                sc.add(a="setmax", n=rng.choice([maxc + 1, maxc + 2]))
                if rng.random() < 0.3:
                    sc.add(a="setmax", n=1)
                    sc.add(a="setmax", n=3)
            # the fault phase must end comfortably before the client's own timeout gives up on the server
            to_ms = (timeout if timeout > 0 else 5) * 1000
            rounds = min(rng.randint(2, 8), max(0, (to_ms - 2 * dt) // dt - 1))
            lossy_handshake(sc, rng, "c1", dt, rounds, rng.choice([0.3, 0.5, 0.7]))
            b = 2 * (2 * -(-250 // dt) + 2) + 4
            sc.heal(["c1"], b)
            sc.pump(["c1"], dt=dt, n=b + 2)
        elif mode == "failover":
            sc.token("T1", 11, hosts=(2, 1), timeout_s=max(1, timeout), expire_s=120)   # address 2 is silent, 1 is the live server
            sc.client("c1", "T1", 1)
            to = max(1, timeout)
            # the first address stays silent for the whole timeout, then the first exchanges with the live one are lossy
            silent = (to * 1000) // dt + 1          # the update after which the client gives up on the first address
            for _ in range(silent):
                sc.cupdate("c1", dt)
                sc.supdate(dt)
            lossy_handshake(sc, rng, "c1", dt, min(rng.randint(1, 3), max(0, (to * 1000 - 2 * dt) // dt - 1)), rng.choice([0.5, 1.0]))
            b = 2 * (2 * -(-250 // dt) + 2) + -(-(to * 1000) // dt) + 6
            sc.heal(["c1"], b)
            sc.pump(["c1"], dt=dt, n=b + 2)
        elif mode in ("silent_client", "silent_server", "alive", "forgery"):
            to = max(1, timeout) if mode != "alive" else rng.choice([1, 5])
            sc.connect("c1", "T1", 11, 1, timeout_s=to, expire_s=120)
            sc.connect("c2", "T2", 22, 2, timeout_s=-1, expire_s=120)
            total = to * 1000 + 3 * dt + 600
            if mode == "alive":
                # authentic packets keep arriving within every timeout period, sometimes just in time
                elapsed = 0
                while elapsed < 3 * to * 1000:
                    gap = rng.choice([dt, to * 1000 - 1, to * 1000, (to * 1000) // 2])
                    gap = max(1, min(gap, to * 1000))
                    k = max(1, gap // dt)
                    # silence for k ticks (both only advance their clocks), then one exchange in both directions
                    for _ in range(k - 1):
                        sc.add(a="cupdate", c="c1", dt=dt)
                        sc.supdate(dt)
                    sc.cupdate("c1", dt, as_=sc.name("ka"))
                    sc.add(a="cpayload", c="c1", tag=7000 + elapsed % 100, len=1, as_="alive_c")
                    sc.sdeliver("alive_c")
                    sc.supdate(dt)
                    sc.add(a="spayload", id=11, tag=7500 + elapsed % 100, len=1, as_="alive_s")
                    sc.cdeliver("c1", "alive_s")
                    elapsed += k * dt
            else:
                elapsed = 0
                while elapsed < total:
                    if mode in ("silent_client", "forgery"):
                        sc.supdate(dt)                      # the server hears nothing from c1
                    if mode in ("silent_server", "forgery"):
                        sc.cupdate("c1", dt)                # c1 hears nothing from the server
                    if mode == "silent_client":
                        sc.cupdate("c1", dt)
                    if mode == "silent_server":
                        sc.supdate(dt)
                    if mode == "forgery" and rng.random() < 0.7:
                        # recorded handshake packets, request-shaped junk and foreign packets keep arriving
                        r = rng.random()
                        if r < 0.35:
                            sc.sdeliver(rng.randint(1, 8), from_=1)
                            sc.cdeliver("c1", rng.randint(1, 8))
                        elif r < 0.6:
                            sc.add(a="sraw", hex=(bytes([rng.choice([0x00, 0x10, 0x50])]) + bytes(REQ_LEN - 1)).hex(), **{"from": 1}, shape="reqjunk", ctx="connected")
                            sc.add(a="craw", c="c1", hex=(bytes([rng.choice([0x00, 0x10])]) + bytes(REQ_LEN - 1)).hex(), shape="reqjunk", ctx="client_connected")
                        else:
                            sc.add(a="scraft", kind="KeepAlive", tok="T2", seq=rng.randint(50, 90), **{"from": 1}, nonauth=True)
                            sc.add(a="ccraft", c="c1", kind="KeepAlive", tok="T2", dir="s2c", seq=rng.randint(50, 90), nonauth=True)
                    elapsed += dt
                sc.supdate(dt)
                sc.cupdate("c1", dt)
        elif mode == "restart":
            # a client that was half-way through the handshake restarts with a fresh token from the same address
            sc.token("T1", 11, timeout_s=5, expire_s=120)
            sc.client("c1", "T1", 1)
            sc.cupdate("c1", dt, as_="rq")
            sc.sdeliver("rq", as_="ch")
            if rng.random() < 0.5:
                sc.cdeliver("c1", "ch")
            sc.token("T1b", rng.choice([11, 12]), timeout_s=5, expire_s=120)
            sc.client("c1b", "T1b", 1)
            b = 2 * (2 * -(-250 // dt) + 2) + 4
            sc.heal(["c1b"], b)
            sc.pump(["c1b"], dt=dt, n=b + 2)
        elif mode == "pending_expire":
            exp = rng.choice([1, 2, 3])
            sc.token("T1", 11, expire_s=exp, timeout_s=5)
            sc.client("c1", "T1", 1)
            sc.cupdate("c1", 0, as_="rq")
            sc.sdeliver("rq", as_="ch")
            for _ in range((exp * 1000 + 1500) // dt + 1):
                sc.supdate(dt)
            sc.add(a="mark", mark="pending_gone", addr=1)
        out.append(sc.s)
    return out


# ---------------------------------------------------------------------------------------------------------------
# C05 / C19: the table binding used tokens to addresses at its capacity (2048 entries, server.rs:51, 175-207)
# ---------------------------------------------------------------------------------------------------------------
def token_table_forged(props, n=2100):
    """Token TV is used from address 1; then `n` requests that do NOT authenticate (valid tokens with one bit of their sealed part
    flipped, every one with a different authentication tag) arrive from address 2; then the holder of TV shows up at address 3.
    Requests that were never honoured must not count as uses: the binding of TV to address 1 holds (no known finding here)."""
    sc = NS("tokentable-forged-%d" % n, props, max_clients=2)
    sc.token("TV", 10)
    sc.client("v", "TV", 1)
    sc.cupdate("v", 100, as_="vreq")
    sc.sdeliver("vreq", as_="vchal")
    for i in range(n):
        sc.token("F%d" % i, 1000 + i)
        sc.add(a="srequest", t="F%d" % i, **{"from": 2}, mut={"bit": 8 * 60 + (i % 4000)}, nonauth=True)
    sc.client("moved", "TV", 3)
    sc.pump(["moved"], dt=100, n=4)
    return [sc.s]


def token_table_histories(props, fillers=(2047, 2048)):
    """Token TV is used from address 1; `n` further valid tokens are presented (from address 2); then the holder of TV shows
    up at address 3.  With 2047 others the binding is still in the table (refused); the 2048th replaces it (known finding D21)."""
    out = []
    for n in fillers:
        sc = NS("tokentable-%d" % n, props, max_clients=2)
        sc.token("TV", 10)
        sc.client("v", "TV", 1)
        sc.cupdate("v", 100, as_="vreq")
        sc.sdeliver("vreq", as_="vchal")
        for i in range(n):
            sc.token("F%d" % i, 1000 + i)
            sc.add(a="srequest", t="F%d" % i, **{"from": 2})
        sc.client("moved", "TV", 3)
        sc.pump(["moved"], dt=100, n=4)
        out.append(sc.s)
    return out
