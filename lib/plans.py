"""Per-property plans and the generic check pipeline."""
import json, os, random, time, hashlib
import common as C
import gen_msg as GM
import wire as W
import gen_nc as GN
import gen_stack as GS


def hostile_hex(p):
    """Bytes for an abstract hostile packet exported by the model (payload content is irrelevant: 0xAB filler)."""
    fill = lambda n: bytes([0xAB]) * n
    k = p["kind"]
    if k == "SR":
        return W.small_reliable(p["seq"], p["ch"], [(m["mid"], fill(m["len"])) for m in p["msgs"]]).hex()
    if k == "SU":
        return W.small_unreliable(p["seq"], p["ch"], [fill(m["len"]) for m in p["msgs"]]).hex()
    if k in ("RS", "US"):
        sl = p["sl"]
        return W.slice_packet(k == "RS", p["seq"], p["ch"], sl["mid"], sl["idx"], sl["n"], fill(sl["len"])).hex()
    if k == "ACK":
        return W.ack(p["seq"], [tuple(r) for r in p["ranges"]]).hex()
    return "ff00000000"


PAR = int(os.environ.get("VERIF_PAR", "12"))


class Plan:
    def __init__(self, world, monitor, props, gens, mc=None, level="exploration", rule="", assumptions=None, sig=None):
        self.world = world          # harness world: "msg" | "nc" | ...
        self.monitor = monitor      # TLA+ trace monitor module
        self.props = props          # property ids whose clauses are evaluated in these runs
        self.gens = gens            # list of (name, fn(rng, tier, props) -> [schedule])
        self.mc = mc or []          # list of model-checking jobs
        self.level = level
        self.rule = rule
        self.assumptions = assumptions or []
        self.sig = sig


def sched_hash(s):
    return hashlib.sha1(json.dumps(s["steps"], sort_keys=True).encode()).hexdigest()[:16]


def nontrivial_nc(s):
    """A netcode schedule is non-trivial if it presents at least one datagram and contains an attack, fault or time-out step."""
    pres = any(st["a"] in ("sdeliver", "cdeliver", "pump") for st in s["steps"])
    fault = any(st["a"] in ("scraft", "ccraft", "sraw", "craw", "srequest", "tokenbytes", "setmax") or "mut" in st or "from" in st
                or (st["a"] in ("supdate", "cupdate") and st.get("dt", 0) >= 1000) for st in s["steps"])
    return pres and fault or any(st["a"] == "tokenbytes" for st in s["steps"])


def nontrivial_msg(s):
    """A message-layer schedule is non-trivial if it delivers something and injects at least one fault."""
    has_del = any(st["a"] in ("deliver", "round") for st in s["steps"])
    fault = any(st["a"] == "drop" or st["a"] == "hostile" or (st["a"] == "deliver" and (st.get("keep") or st.get("sel", 0) != 0 or "fl" in st))
                for st in s["steps"])
    return has_del and fault


def signature(pid, flag, ev):
    """Signature of a violation: clause + abstract fields of the violating event (used by known_findings.json)."""
    sig = {"property": pid, "clauses": sorted((c if p == pid else p + "_" + c) for p, c in flag["flags"]), "ev": ev.get("ev")}
    if ev.get("ev") == "deliver":
        p = ev.get("p", {})
        sig["label"] = ev.get("label")
        sig["kind"] = p.get("kind")
    if ev.get("panic"):
        sig["panic"] = True
    if flag.get("cause") and flag["cause"] != "none":
        sig["ctx"] = flag["cause"]
    for k in ("cause", "shape", "ctx"):
        if k in ev:
            sig[k] = ev[k]
        elif isinstance(ev.get("d"), dict) and k in ev["d"]:
            sig[k] = ev["d"][k]
    return sig


def event_at(trace_path, run_no, i):
    with open(trace_path) as f:
        for line in f:
            if ('"run":%d' % run_no) in line and ('"i":%d,' % i) in line:
                e = json.loads(line)
                if e.get("run") == run_no and e.get("i") == i:
                    return e
    return {}


def cfg_const(cfg_text, name, default=None):
    import re
    m = re.search(r"^\s*%s\s*=\s*(\S+)" % name, cfg_text, re.M)
    return int(m.group(1)) if m else default


def mc_job(name, module, cfgs, props, export=True, strict=True, cap_q=None, cap_t=8000, workers=8, timeout_q=300, timeout_t=3000):
    """Model-check MC configs (quick: cfgs['quick'], thorough: cfgs['thorough']) and export the paths as schedules."""
    if cap_q is None:
        cap_q = 1800 if module == "MC_Netcode" else 700

    def job(tier, wd, rng):
        out = []
        for cfgf in cfgs[tier]:
            res = C.tlc_mc(module, cfgf, wd, workers=workers, timeout=(timeout_q if tier == "quick" else timeout_t))
            res["name"] = "%s:%s" % (name, cfgf)
            res["schedules"] = []
            if export and not res.get("violated"):
                cfg_text = open(os.path.join(C.SPEC, cfgf)).read()
                mcfg, paths, total = C.export_paths(res["text"])
                res["paths_total"], res["paths_maximal"] = total, len(paths)
                # vacuity check in place of TLC's -coverage (which does not terminate on these functional specifications): how often
                # each action occurs in the exported behaviours of this configuration
                counts = {}
                for p_ in paths:
                    for st_ in p_["steps"]:
                        key_ = st_["a"] + ((":" + st_["call"]) if "call" in st_ else "") + (":from" if st_["a"] == "exchange" and "from" in st_ else "")
                        counts[key_] = counts.get(key_, 0) + 1
                res["action_counts"] = counts
                cap = cap_q if tier == "quick" else cap_t
                if len(paths) > cap:
                    # half of the budget goes to the behaviours that exercise most (distinct calls, actors, a disconnect followed by
                    # further handshake traffic, replays / re-addressing), the other half is a uniform sample of the rest
                    def richness(p):
                        st = p["steps"]
                        kinds = {s["a"] for s in st}
                        actors = {s.get("c") or s.get("conn") or s.get("id") for s in st}
                        score = len(kinds) + len(actors)
                        disc = [i for i, s in enumerate(st) if s["a"] in ("sdisconnect", "cdisconnect", "disc") or s.get("call") in ("disconnect", "remove_connection")]
                        if disc:
                            score += 2 * sum(1 for s in st[disc[0]:] if s["a"] in ("exchange", "sdeliver", "cstep", "send", "api"))
                        score += sum(1 for s in st if "from" in s or s["a"] in ("scraft", "hostile"))
                        return score
                    ranked = sorted(paths, key=lambda p: (-richness(p), rng.random()))
                    paths = ranked[:cap // 2] + rng.sample(ranked[cap // 2:], cap - cap // 2)
                bound = cfg_const(cfg_text, "Bound", 4)
                rounds = cfg_const(cfg_text, "HealRounds", 4)
                dt = cfg_const(cfg_text, "HealDt", 300)
                for i, p in enumerate(paths):
                    steps = [dict(st, hex=hostile_hex(st["p"])) if st["a"] == "hostile" else st for st in p["steps"]]
                    nr = sum(1 for st in steps if st["a"] == "round")
                    if module == "MC_Conn":
                        if not any(st["a"] == "heal" for st in steps):
                            steps.append({"a": "heal", "conn": 1, "bound": bound, "lose": rng.random() < 0.5})
                        if nr < rounds:
                            steps.append({"a": "round", "conn": 1, "dt": dt, "n": rounds - nr})
                    elif module == "MC_Server" and not any(st["a"] == "heal" for st in steps):
                        steps += [{"a": "get_event"}] * 4
                    elif module == "MC_Transport":
                        sdt = mcfg.get("step_dt", 100)
                        b_ = (mcfg.get("timeout_s", 2) * 1000) // sdt + 12
                        steps += [{"a": "mark", "mark": "heal", "bound": b_}, {"a": "round", "dt": sdt, "n": b_ + 2}]
                    cfg = dict(mcfg)
                    cfg["props"] = props
                    res["schedules"].append({"id": "%s-%d" % (cfgf, i), "cfg": cfg, "steps": steps, "model": True, "strict": strict})
                res["paths_replayed"] = len(res["schedules"])
            res.pop("text", None) if not res.get("violated") else None
            out.append(res)
        return out
    return job


# TLAPS proofs checked in the thorough tier: the replay window (ring buffer of replay_protection.rs) never accepts a sequence twice
PROOFS = {"C04": ["ReplayWindow"]}
STRICT_GENERATED = os.environ.get("VERIF_STRICT_GENERATED", "1") != "0"
STRICT_QUICK_STEPS = int(os.environ.get("VERIF_STRICT_QUICK_STEPS", "800"))
# the thorough tier follows more of every batch, but not everything: a strict step costs up to 30 ms on runs with much reassembly state
STRICT_THOROUGH_STEPS = int(os.environ.get("VERIF_STRICT_THOROUGH_STEPS", "6000"))
TIER = ["quick"]


def run_batch(plan, pid, name, scheds, wd, idx, world=None, monitor=None):
    """Execute schedules on the real code and judge the recorded trace with the TLC monitor."""
    world = world or plan.world
    monitor = monitor or plan.monitor
    sp = os.path.join(wd, "sched-%s-%d.ndjson" % (name, idx))
    tp = os.path.join(wd, "trace-%s-%d.ndjson" % (name, idx))
    with open(sp, "w") as f:
        for s in scheds:
            f.write(json.dumps(s, separators=(",", ":")) + "\n")
    hres = C.rvh([world, sp, tp])
    flags, cov, states, dt = C.tlc_trace(monitor, tp, wd)
    strict = None
    if name.startswith("model:") and world == "msg" and ":MC_C" in name and "MC_Server" not in name and scheds and scheds[0].get("strict", True):
        strict = C.tlc_strict(scheds[0]["cfg"], tp, wd)
    if name.startswith("model:") and world == "msg" and (":MC_C11" in name or ":MC_C12" in name):
        strict = C.tlc_strict(scheds[0]["cfg"], tp, wd, base="TraceServerStrict")
    if name.startswith("model:") and world == "nc" and "MC_NC_" in name:
        strict = C.tlc_strict_nc(name.split(":")[-1], tp, wd)
    if name.startswith("model:") and world == "stack" and "MC_C20" in name:
        strict = C.tlc_strict_transport(name.split(":")[-1], tp, wd)
    if not name.startswith("model:") and world == "nc" and STRICT_GENERATED and not any(st["a"].startswith(("rt_", "re_")) for sc in scheds[:3] for st in sc["steps"]):
        # generated netcode histories: tokens and clients are read from the trace itself (TraceNetcodeDyn)
        strict = C.tlc_strict_dyn(os.path.abspath(tp), wd)
    if not name.startswith("model:") and world == "msg" and STRICT_GENERATED:
        # generated (seeded-random, boundary, hostile) schedules: the recorded trace must be a behaviour of the model as well
        strict = C.strict_generated(scheds, tp, wd, max_steps=(STRICT_QUICK_STEPS if TIER[0] == "quick" else STRICT_THOROUGH_STEPS))
    return {"sched_path": sp, "trace_path": tp, "harness": hres, "flags": flags, "cov": cov, "states": states, "tlc_s": dt, "strict": strict}


def run_check(pid, tier, replay=None):
    t0 = time.time()
    TIER[0] = tier
    plan = PLANS[pid]
    wd = C.workdir(pid, fresh=(replay is None))
    os.makedirs(os.path.join(wd, "replays"), exist_ok=True)
    build_s = C.build_harness()
    rng = random.Random(C.seed() * 7919 + sum(map(ord, pid)))
    known = [k for k in C.load_known() if k.get("status") == "known" and k.get("property") == pid]

    batches = []
    if replay:
        r = json.load(open(replay))
        batches.append(("replay", [r["schedule"]]))
    else:
        for g in plan.gens:
            name, fn = g[0], g[1]
            if len(g) > 2:
                name = "%s@%s@%s" % (name, g[2], g[3])
            scheds = fn(rng, tier, plan.props)
            # chunk so that traces stay small
            chunk, size = [], 0
            for s in scheds:
                chunk.append(s)
                size += len(s["steps"])
                if size > 3000:
                    batches.append((name, chunk))
                    chunk, size = [], 0
            if chunk:
                batches.append((name, chunk))

    # The generated batches start at once on the pool; meanwhile the focused configurations are model-checked (TLC), their state
    # graphs exported as schedules, and each exported batch joins the pool as soon as it exists.
    from concurrent.futures import ThreadPoolExecutor
    mc_results = []
    violations = []
    proofs = []
    total_events = total_runs = total_states = 0
    hashes, nontriv = set(), set()
    samples = []
    known_hit = []
    panics = skipped = 0
    seen_keys, reported_keys, more_violations = {}, set(), 0
    strict_tot = {"runs": 0, "accepted": 0, "matched_events": 0, "drift_runs": 0, "errors": 0}
    drift_samples = []

    def wm(name):
        parts = name.split("@")
        return (parts[1], parts[2]) if len(parts) == 3 else (None, None)

    with ThreadPoolExecutor(max_workers=PAR) as ex:
        futs = []

        def submit(bi):
            name, scheds = batches[bi]
            futs.append(ex.submit(run_batch, plan, pid, name.split("@")[0], scheds, wd, bi, wm(name)[0], wm(name)[1]))

        for bi in range(len(batches)):
            submit(bi)
        if not replay:
            # the model-checking jobs of a plan run side by side (each with its own generator for the sampling of exported paths)
            def run_job(ji):
                return plan.mc[ji](tier, wd, random.Random(C.seed() * 104729 + ji * 31 + sum(map(ord, pid))))
            with ThreadPoolExecutor(max_workers=3) as mex:
                job_futs = [mex.submit(run_job, ji) for ji in range(len(plan.mc))]
                for jf in job_futs:
                    for res in jf.result():
                        mc_results.append(res)
                        if res.get("violated"):
                            rp = os.path.join(wd, "replays", "mc-%s.txt" % res["name"].replace(":", "-").replace("/", "-"))
                            with open(rp, "w") as f:
                                f.write(res.get("text", ""))
                            res.pop("text", None)
                            violations.append({"where": "model", "name": res["name"], "invariant": res["violated"], "replay": rp})
                        scheds = res.pop("schedules", [])
                        chunk, size = [], 0
                        for s in scheds:
                            chunk.append(s)
                            size += len(s["steps"]) + 60
                            if size > 6000:
                                batches.append(("model:" + res["name"], chunk))
                                submit(len(batches) - 1)
                                chunk, size = [], 0
                        if chunk:
                            batches.append(("model:" + res["name"], chunk))
                            submit(len(batches) - 1)
            # machine-checked proofs that belong to the property (thorough tier): an unproved obligation is a tool failure, not a verdict
            if tier != "quick":
                for mod in PROOFS.get(pid, []):
                    proofs.append(C.tlaps_proof(mod, wd))
        results = [f.result() for f in futs]
    for (name, scheds), res in zip(batches, results):
        total_events += res["harness"].get("events", 0)
        total_runs += res["harness"].get("runs", 0)
        panics += res["harness"].get("panics", 0)
        skipped += res["harness"].get("skipped", 0)
        total_states += res["states"]
        if res.get("strict"):
            st = res["strict"]
            if not st["ok"]:
                strict_tot["errors"] += 1
                drift_samples.append({"error": st.get("error", "")[-500:]})
            strict_tot["runs"] += st["stats"].get("runs", 0)
            strict_tot["accepted"] += st["stats"].get("accepted", 0)
            strict_tot["matched_events"] += st["stats"].get("matched", 0)
            strict_tot["drift_runs"] += st["stats"].get("drift", 0)
            for d in st["drifts"][:3]:
                if len(drift_samples) < 5:
                    drift_samples.append(d)
        for s in scheds:
            h = sched_hash(s)
            hashes.add(h)
            if any(st["a"].startswith(("rt_", "re_")) or st["a"] == "relay" for st in s["steps"]) or ("conns" in s["cfg"] and nontrivial_msg(s)) or ("max_clients" in s["cfg"] and nontrivial_nc(s)):
                nontriv.add(h)
        if len(samples) < 3 and scheds:
            s = scheds[0]
            samples.append({"generator": name, "id": s.get("id"), "cfg": s["cfg"], "steps": s["steps"][:25], "n_steps": len(s["steps"])})
        for fl in res["flags"]:
            mine = [f for f in fl["flags"] if f[0] in plan.props]
            if not mine:
                continue
            # many runs failing the same clause at the same kind of event: a few replay files are enough
            quick_key = (json.dumps(mine), fl.get("ev"), fl.get("cause"))
            seen_keys[quick_key] = seen_keys.get(quick_key, 0) + 1
            if seen_keys[quick_key] > 6 and quick_key in reported_keys:
                more_violations += 1
                continue
            ev = event_at(res["trace_path"], fl["run"], fl["i"])
            sig = plan.sig(pid, fl, ev) if plan.sig else signature(pid, fl, ev)
            sched = scheds[fl["run"] - 1] if fl["run"] - 1 < len(scheds) else None
            kf = next((k for k in known if C.sig_matches(k["match"], sig)), None)
            if kf:
                known_hit.append(kf["id"])
                continue
            rp = os.path.join(wd, "replays", "%s-%s.json" % (pid, C.sha(json.dumps(sched, sort_keys=True) if sched else str(fl))))
            tr = rp.replace(".json", ".trace.ndjson")
            C.cut_run(res["trace_path"], fl["run"], tr)
            with open(rp, "w") as f:
                json.dump({"property": pid, "clauses": mine, "signature": sig, "event_index": fl["i"], "schedule": sched,
                           "trace": tr, "generator": name}, f)
            violations.append({"where": "impl", "clauses": mine, "replay": rp, "sig": sig})
            reported_keys.add(quick_key)

    for kid in sorted(set(known_hit)):
        k = next(x for x in known if x["id"] == kid)
        print("KNOWN-FINDING: property=%s %s (%s, seen %d times)" % (pid, k["what"], kid, known_hit.count(kid)))
    seen = set()
    per_sig = {}
    for v in violations:
        if v["replay"] in seen:
            continue
        seen.add(v["replay"])
        k = json.dumps(v.get("sig", v.get("invariant")), sort_keys=True)
        per_sig[k] = per_sig.get(k, 0) + 1
        if per_sig[k] > 3:
            continue
        if v["where"] == "model":
            print("VIOLATION property=%s replay=%s  (model config %s violates %s)" % (pid, v["replay"], v["name"], v["invariant"]))
        else:
            print("VIOLATION property=%s replay=%s  (clauses %s, signature %s)" %
                  (pid, v["replay"], ",".join(c for _, c in v["clauses"]), json.dumps(v["sig"], sort_keys=True)))

    wall = time.time() - t0
    mc_states = sum(r.get("distinct", 0) for r in mc_results)
    mc_trans = sum(r.get("generated", 0) for r in mc_results)
    cov = {
        "evaluations": total_runs,
        "distinct_nontrivial": len(nontriv),
        "rule": plan.rule or "schedules are generated from VERIF_SEED (and exported from the TLC model where a model config exists); "
                             "distinct = different step lists (sha1), non-trivial = delivers at least one packet and injects at least one "
                             "fault (drop, duplicate, reorder, hostile packet)",
        "samples": samples,
        "events_checked_by_monitor": total_events,
        "monitor_states": total_states,
        "traces_validated_against_impl": total_runs,
        "harness_panics_observed": panics,
        "truncated_replays": skipped,
        "known_findings_hit": sorted(set(known_hit)),
        "further_flagged_runs_not_written_out": more_violations,
        "model_checking": [{k: v for k, v in r.items() if k not in ("text", "schedules")} for r in mc_results],
        "strict_pass": strict_tot,
        "tlaps_proofs": proofs,
        "drift_samples": drift_samples,
        "build_s": round(build_s, 1),
    }
    level = plan.level
    if mc_results and mc_states > 0:
        cov["states"] = mc_states
        cov["transitions"] = mc_trans
        level = "model_checking"
    elif level == "model_checking":
        level = "exploration"
    if not replay:
        C.write_evidence(pid, tier, level, cov, wall, len(seen), assumptions=plan.assumptions)
    if strict_tot["drift_runs"] or strict_tot["errors"]:
        print("DRIFT property=%s model=%s runs_with_drift=%d of %d (the model does not describe the code on these runs; not a verdict) e.g. %s" %
              (pid, plan.monitor, strict_tot["drift_runs"], strict_tot["runs"], json.dumps(drift_samples[:2])[:300]))
    if violations:
        return 1
    if any(not p["ok"] for p in proofs):
        print("TOOL property=%s tlapm could not prove %s" % (pid, [p["module"] for p in proofs if not p["ok"]]))
        return 2
    print("OK property=%s tier=%s runs=%d events=%d mc_states=%d wall=%.1fs" % (pid, tier, total_runs, total_events, mc_states, wall))
    return 0


# ---------------------------------------------------------------------------------------------------------------
# generators
# ---------------------------------------------------------------------------------------------------------------
def n_of(tier, q, t):
    return q if tier == "quick" else t


def g_random_ro(rng, tier, props):
    out = []
    for i in range(n_of(tier, 30, 400)):
        chans = [GM.chan(0, "RO", resend=rng.choice([100, 300, 500]))]
        out.append(GM.random_schedule(rng, "ro-%d" % i, props, chans_sc=chans, chans_cs=chans, ticks=rng.randint(5, 40),
                                      p_drop=rng.choice([0.0, 0.15, 0.4]), p_dup=rng.choice([0.0, 0.1, 0.3])))
    return out


def mixed_layout(rng):
    """Channel layouts beyond the default U / RU / RO triple: several channels of one kind, channel ids that are not 0..n-1,
    different channel sets in the two directions (server_channels_config != client_channels_config)."""
    def mk(kinds, ids):
        return [GM.chan(ids[j], k, resend=rng.choice([100, 300])) for j, k in enumerate(kinds)]
    kind_sets = [["RO", "RO"], ["U", "U", "RO"], ["RU", "RU", "U"], ["RO", "U"], ["RU"], ["U", "RO", "RU", "RO"], ["U", "RU", "RO"]]
    id_sets = [[0, 1, 2, 3], [3, 7, 200, 9], [255, 0, 128, 1]]
    ks = rng.choice(kind_sets)
    kc = ks if rng.random() < 0.5 else rng.choice(kind_sets)
    return mk(ks, rng.choice(id_sets)), mk(kc, rng.choice(id_sets))


def g_random_mixed(rng, tier, props):
    out = []
    for i in range(n_of(tier, 20, 300)):
        sc, cs = (None, None) if i % 2 == 0 else mixed_layout(rng)
        out.append(GM.random_schedule(rng, "mix-%d" % i, props, chans_sc=sc, chans_cs=cs, ticks=rng.randint(5, 40),
                                      p_drop=rng.choice([0.0, 0.15, 0.4]), p_dup=rng.choice([0.0, 0.1, 0.3])))
    return out


def g_random_ru(rng, tier, props):
    out = []
    for i in range(n_of(tier, 30, 400)):
        chans = [GM.chan(0, "RU", resend=rng.choice([100, 300, 500]))]
        lens = rng.choice([None, [5, 700, 800, 1201, 2401], [600, 700, 900, 1100]])
        out.append(GM.random_schedule(rng, "ru-%d" % i, props, chans_sc=chans, chans_cs=chans, ticks=rng.randint(5, 40), lens=lens,
                                      p_drop=rng.choice([0.0, 0.15, 0.4]), p_dup=rng.choice([0.1, 0.3, 0.5]), inorder=rng.choice([0.2, 0.6]),
                                      p_recv=rng.choice([0.2, 0.7])))
    return out


def g_random_u(rng, tier, props):
    out = []
    for i in range(n_of(tier, 30, 400)):
        chans = [GM.chan(0, "U"), GM.chan(1, rng.choice(["RO", "RU", "U"]))]
        lens = rng.choice([None, [0, 1, 7, 1199, 1200, 1201, 2400, 2401, 3601], [1201, 1300, 2401]])
        out.append(GM.random_schedule(rng, "u-%d" % i, props, chans_sc=chans, chans_cs=chans, ticks=rng.randint(5, 30), lens=lens,
                                      p_drop=rng.choice([0.0, 0.2]), p_dup=rng.choice([0.2, 0.5]), inorder=rng.choice([0.2, 0.6]),
                                      dts=(100, 300, 1000, 3000), live=False))
    return out


def g_random_acks(rng, tier, props):
    out = []
    for i in range(n_of(tier, 40, 500)):
        kind = rng.choice(["RO", "RU"])
        chans = [GM.chan(0, kind, resend=rng.choice([100, 300]))]
        lens = rng.choice([None, [5, 7, 700, 1201, 2401, 3601]])
        out.append(GM.random_schedule(rng, "ack-%d" % i, props, chans_sc=chans, chans_cs=chans, ticks=rng.randint(5, 40), lens=lens,
                                      p_deliver=0.45, p_drop=0.3, p_dup=0.15, inorder=rng.choice([0.1, 0.5, 0.9]), max_sends=2,
                                      dts=(100, 300, 400, 1500, 3100)))
    return out


def g_random_budget(rng, tier, props):
    import itertools
    out = []
    orders = list(itertools.permutations(["U", "RO", "RU"]))
    for i in range(n_of(tier, 40, 500)):
        kinds = rng.choice(orders)
        chans = [GM.chan(j, k, resend=rng.choice([100, 300])) for j, k in enumerate(kinds)]
        budget = rng.choice([0, 1, 99, 100, 1199, 1200, 1201, 2400, 3600, 5000, 60000])
        lens = rng.choice([[0, 1, 50, 99, 100, 101, 150], [100, 1199, 1200, 1201, 2400, 3600], None])
        out.append(GM.random_schedule(rng, "bud-%d" % i, props, chans_sc=chans, chans_cs=chans, budget=budget, ticks=rng.randint(4, 25), lens=lens,
                                      p_drop=0.1, p_dup=0.05, p_send=0.8, max_sends=4, live=False))
    return out


def g_hostile(rng, tier, props):
    full = tier != "quick"
    pk = GM.hostile_structural(rng, full=full)
    samples = [W.small_reliable(3, 2, [(0, GM.fill(5)), (1, GM.fill(7))]), W.small_unreliable(3, 0, [GM.fill(4)]),
               W.slice_packet(True, 3, 2, 0, 1, 3, GM.fill(1200)), W.slice_packet(False, 3, 0, 0, 1, 2, GM.fill(101)),
               W.ack(3, [(0, 2), (4, 5), (9, 12)])]
    pk += GM.hostile_mutations(rng, samples, 300 if not full else 3000)
    if not full:
        pk = rng.sample(pk, min(len(pk), 1800))
    return GM.hostile_schedules(rng, props, pk, per_run=2, groups=GM.hostile_groups(rng))


def g_sizes(rng, tier, props):
    return GM.size_schedules(rng, props, n_of(tier, 60, 800), tier != "quick")


def g_api(rng, tier, props):
    return GM.api_schedules(rng, props, n_of(tier, 1500, 20000))


def g_multi(rng, tier, props):
    return GM.multi_schedules(rng, props, n_of(tier, 40, 600), tier != "quick")


def g_random_mem(rng, tier, props):
    """C09: duplicates of slices after consumption with older ids missing, tight budgets, stale unreliable fragments, long runs."""
    out = []
    for i in range(n_of(tier, 40, 500)):
        kinds = rng.choice([["RU"], ["RO"], ["U"], ["U", "RU", "RO"], ["RO", "U"]])
        tight = rng.random() < 0.4
        maxmem = rng.choice([2400, 3000, 4000, 8000, 20000]) if tight else 5_000_000
        chans = [GM.chan(j, k, maxmem=maxmem, resend=rng.choice([100, 300])) for j, k in enumerate(kinds)]
        lens = rng.choice([[5, 1201, 2401], [1201, 1300, 2401, 3601], None, [0, 1, 100, 1200, 1201]])
        out.append(GM.random_schedule(rng, "mem-%d" % i, props, chans_sc=chans, chans_cs=chans, ticks=rng.randint(5, 60 if tier == "quick" else 150),
                                      lens=lens, p_deliver=0.5, p_drop=rng.choice([0.1, 0.3]), p_dup=rng.choice([0.2, 0.4]),
                                      inorder=rng.choice([0.2, 0.7]), p_recv=rng.choice([0.3, 0.9]),
                                      dts=rng.choice([(100, 300), (1000, 2999, 3000, 3001), (300,)]),
                                      budget=rng.choice([60000, 60000, 2400, 1500]), live=not tight))
    return out


def g_random_timing(rng, tier, props):
    out = []
    for i in range(n_of(tier, 40, 500)):
        resend = rng.choice([100, 300, 500])
        chans = [GM.chan(0, rng.choice(["RO", "RU"]), resend=resend), GM.chan(1, "RO", resend=resend)]
        dts = rng.choice([(1, 50, 100), (resend - 1, resend, resend + 1), (100, 299, 300, 301, 700), (resend,), (10, 2 * resend)])
        lens = rng.choice([[5, 9], [5, 1201, 2401, 3601], None])
        out.append(GM.random_schedule(rng, "tim-%d" % i, props, chans_sc=chans, chans_cs=chans, ticks=rng.randint(6, 40), lens=lens, dts=dts,
                                      p_deliver=0.5, p_drop=0.3, p_dup=0.1, p_send=0.3, max_sends=2))
    return out


def g_nc_payload(rng, tier, props):
    return GN.payload_histories(rng, props, n_of(tier, 150, 3000), tier != "quick")


def g_nc_denied_retry(rng, tier, props):
    return GN.denied_retry_histories(rng, props, n_of(tier, 40, 600))


def g_nc_takeover(rng, tier, props):
    return GN.takeover_histories(rng, props, n_of(tier, 60, 1000))


def g_nc_handshake(rng, tier, props):
    return GN.handshake_histories(rng, props, n_of(tier, 250, 5000), tier != "quick") + GN.expiry_histories(rng, props)


def g_nc_tokentable(rng, tier, props):
    return GN.token_table_histories(props, fillers=(2048,))


def g_nc_tokentable_forged(rng, tier, props):
    return GN.token_table_forged(props)


def g_nc_tokentable_under(rng, tier, props):
    return GN.token_table_histories(props, fillers=(2047,))


def g_nc_tokentable_thorough(rng, tier, props):
    return GN.token_table_histories(props) if tier != "quick" else []


def g_nc_shapes(rng, tier, props):
    return (GN.shape_schedules(rng, props, tier != "quick") + GN.token_byte_schedules(rng, props, tier != "quick")
            + GN.forged_then_genuine(rng, props, n_of(tier, 40, 600)))


def g_nc_bits(rng, tier, props):
    return GN.bit_schedules(rng, props, tier != "quick") + GN.proto_bit_schedules(rng, props)


def g_nc_live(rng, tier, props):
    return GN.liveness_schedules(rng, props, n_of(tier, 200, 4000), tier != "quick")


_wire_cache = {}


def wire_job(tier, wd, rng):
    """MC_Wire: ack range list + delta coding; every reachable list is exported as a round-trip case."""
    res = C.tlc_mc("MC_Wire", "MC_Wire_q.cfg" if tier == "quick" else "MC_Wire_t.cfg", wd, workers=8, timeout=1200)
    res["name"] = "wire:MC_Wire"
    import re
    lists = set()
    for m in re.finditer(r'<<"RANGES", "(.*)">>', res.get("text", "")):
        lists.add(m.group(1))
    _wire_cache["ranges"] = [json.loads(x) for x in sorted(lists)]
    res["range_lists_exported"] = len(lists)
    res["schedules"] = []
    if not res.get("violated"):
        res.pop("text", None)
    return [res]


def big(v):
    return v if v < (1 << 31) else str(v)


MSG_CFG = {"conns": [1], "sc": GM.default_chans(), "cs": GM.default_chans(), "budget": 60000, "seqbase": 0, "midbase": 0}


def g_wire_renet(rng, tier, props):
    full = tier != "quick"
    steps = []
    bases = [0, 58, 16378, (1 << 30) - 8, (1 << 62) - 16]
    ranges = _wire_cache.get("ranges", [[[0, 1]], [[0, 2], [3, 4]]])
    if not full and len(ranges) > 250:
        ranges = rng.sample(ranges, 250)
    for rs in ranges:
        for b in bases:
            steps.append({"a": "rt_renet", "kind": "ACK", "seq": big(rng.choice(bases)), "ch": 0, "ranges": [[big(lo + b), big(hi + b)] for lo, hi in rs], "shape": "model_ranges"})
    # 64 ranges, single-element ranges with gaps of exactly one, wide gaps
    steps.append({"a": "rt_renet", "kind": "ACK", "seq": 5, "ch": 0, "ranges": [[2 * i, 2 * i + 1] for i in range(64)], "shape": "64x1"})
    steps.append({"a": "rt_renet", "kind": "ACK", "seq": 5, "ch": 0, "ranges": [[big(i << 40), big((i << 40) + (1 << 20))] for i in range(64)], "shape": "64wide"})
    vals = [0, 1, 63, 64, 16383, 16384, (1 << 30) - 1, 1 << 30, (1 << 62) - 1]
    lens = [0, 1, 63, 64, 1200]
    for seq in vals:
        for mid in vals:
            if not full and rng.random() < 0.5:
                continue
            nm = rng.randint(0, 3)
            msgs = [{"mid": big(mid), "len": rng.choice(lens if nm < 2 else [0, 1, 63, 64, 300])} for _ in range(nm)]
            steps.append({"a": "rt_renet", "kind": "SR", "seq": big(seq), "ch": rng.choice([0, 255]), "msgs": msgs, "shape": "small"})
            steps.append({"a": "rt_renet", "kind": "SU", "seq": big(seq), "ch": rng.choice([0, 255]), "msgs": msgs, "shape": "small"})
            for kind in ("RS", "US"):
                n = rng.choice([1, 2, 63, 64, 16384, 1000000])
                steps.append({"a": "rt_renet", "kind": kind, "seq": big(seq), "ch": 7,
                              "sl": {"mid": big(mid), "idx": rng.choice([0, n - 1]), "n": n, "len": rng.choice([1, 63, 64, 1199, 1200])}, "shape": "slice"})
    # byte strings: valid encodings, their truncations / single-byte replacements, random strings
    samples = [W.small_reliable(3, 2, [(0, GM.fill(5)), (70, GM.fill(64))]), W.small_unreliable(16384, 0, [GM.fill(0), GM.fill(63)]),
               W.slice_packet(True, 1 << 30, 2, 64, 1, 3, GM.fill(1200)), W.slice_packet(False, 3, 0, 0, 1, 2, GM.fill(0)),
               W.ack(3, [(0, 2), (4, 5), (9, 12)]), W.ack(3, [(0, 1)]), W.ack(70000, [(5, 6), (1 << 40, (1 << 40) + 3)])]
    for kind, b in GM.hostile_mutations(rng, samples, 400 if not full else 5000):
        steps.append({"a": "re_renet", "hex": b.hex(), "shape": kind})
    for kind, b in GM.hostile_structural(rng, full=False):
        steps.append({"a": "re_renet", "hex": b.hex(), "shape": kind})
    cfg = dict(MSG_CFG, props=props)
    scheds = [{"id": "wire-renet-%d" % i, "cfg": cfg, "steps": steps[i:i + 25]} for i in range(0, len(steps), 25)]
    # acks = the recorded set: feed chosen sequence numbers through the public API, flush, compare the ack packet with pending_acks
    for j, rs in enumerate(rng.sample(ranges, min(len(ranges), 60)) + [[[2 * i, 2 * i + 1] for i in range(70)]]):
        seqs = [q for lo, hi in rs for q in range(lo, hi)]
        for order in ("asc", "desc", "rand"):
            qs = sorted(seqs) if order == "asc" else sorted(seqs, reverse=True) if order == "desc" else rng.sample(seqs, len(seqs))
            base = rng.choice([0, 58, 16378])
            sc = GM.Sched("ackset-%d-%s" % (j, order), dict(MSG_CFG, props=props))
            to = rng.choice("SC")
            for q in qs:
                sc.add(a="hostile", conn=1, to=to, hex=W.small_unreliable(q + base, 0, []).hex(), shape="emptyseq", ctx=order)
                if rng.random() < 0.2:
                    sc.add(a="flush", conn=1, side=to)
            sc.add(a="flush", conn=1, side=to)
            scheds.append(sc.s)
    return scheds


def g_wire_netcode(rng, tier, props):
    full = tier != "quick"
    steps = []
    seqs = [0, 1, 255, 256, 65535, 65536, (1 << 24) - 1, 1 << 24, (1 << 32) - 1, 1 << 32, 1 << 40, 1 << 48, 1 << 56, 1 << 63, (1 << 64) - 1]
    for kind in ("Request", "Denied", "Challenge", "Response", "KeepAlive", "Payload", "Disconnect"):
        for seq in seqs:
            for plen in ((0, 1, 1299, 1300) if kind == "Payload" else (0,)):
                steps.append({"a": "rt_netcode", "kind": kind, "seq": str(seq), "plen": plen, "shape": "%s-seq%d" % (kind, seq.bit_length())})
    for n in (range(1, 33) if full else (1, 2, 3, 16, 31, 32)):
        for fam in ("v4", "v6", "mixed", "v6special"):
            hosts = [(3000 + i if fam == "v6special" else 1000 + i if (fam == "v6" or (fam == "mixed" and i % 2)) else i + 1) for i in range(n)]
            steps.append({"a": "rt_token", "hosts": hosts, "id": rng.choice([0, 7, (1 << 30)]), "ud": rng.randint(0, 200), "create": rng.choice([0, 100]),
                          "expire_s": rng.choice([0, 30]), "timeout_s": rng.choice([-1, 0, 15]), "shape": "token-%d-%s" % (n, fam)})
    out = []
    for i in range(0, len(steps), 10):
        sc = GN.NS("wire-netcode-%d" % i, props, max_clients=3)
        sc.s["steps"] = steps[i:i + 10]
        out.append(sc.s)
    # re-encoding of every datagram kind of a live session, intact and with single-bit flips
    sc = GN.NS("wire-netcode-re", props, max_clients=3)
    names = GN.context_prefix(sc, "client_disconnected")
    for nm in names.values():
        sc.add(a="re_netcode", d=nm, shape="session")
        for _ in range(20):
            sc.add(a="re_netcode", d=nm, mut={"bit": rng.randrange(0, 2400)}, shape="session-bit")
    out.append(sc.s)
    return out


def g_stack_twin(rng, tier, props):
    return GS.twin_schedules(rng, props, n_of(tier, 12, 120))


def g_stack_restart(rng, tier, props):
    # a client program restarted behind the same address with a fresh token for the same id (lost or delivered farewell)
    return GS.restart_schedules(rng, props, n_of(tier, 14, 150))


def g_stack_churn(rng, tier, props):
    # clients join one after the other and leave on their own initiative in some order; the others keep exchanging messages
    return GS.stack_schedules(rng, props, n_of(tier, 16, 200), modes=("churn", "churn_hole", "churn_hole"))


def g_stack(rng, tier, props):
    return GS.stack_schedules(rng, props, n_of(tier, 100, 1500), tier != "quick",
                              modes=("interference", "interference", "disconnects", "churn", "churn", "churn_hole", "silence"))


NC_ASSUME = [
    "TLC (trace monitor) and the observer module spec/NetcodeObs.tla are the oracle",
    "symbolic reading of the AEAD: the chacha20poly1305 crate, the OS RNG and key secrecy are trusted",
    "datagram labels (genuine / replay / re-addressed / mutated / crafted) are ground truth by construction of the harness; datagrams are opened "
    "with the keys the harness issued, through the crate's own codec behind the `verif` feature",
]

MSG_ASSUME = [
    "TLC (trace monitor) and the observer module spec/RenetObs.tla are the oracle",
    "harness projection functions (content interning, packet description through the crate's own decoder behind the `verif` feature)",
]

PLANS = {
    "C04": Plan("nc", "TraceNetcodeMon", ["C04"], [("payload_histories", g_nc_payload), ("takeover_histories", g_nc_takeover)],
                mc=[mc_job("nc_payload", "MC_Netcode", {"quick": ["MC_NC_q4.cfg"], "thorough": ["MC_NC_q4.cfg", "MC_NC_q1.cfg"]}, ["C04"], strict=False)],
                level="model_checking", assumptions=NC_ASSUME),
    "C05": Plan("nc", "TraceNetcodeMon", ["C05"], [("handshake_histories", g_nc_handshake), ("token_table", g_nc_tokentable),
                                                       ("token_table_under", g_nc_tokentable_under), ("token_table_forged", g_nc_tokentable_forged)],
                mc=[mc_job("nc_cross", "MC_Netcode", {"quick": ["MC_NC_q1.cfg", "MC_NC_q5.cfg"],
                                                             "thorough": ["MC_NC_q1.cfg", "MC_NC_q2.cfg", "MC_NC_q3.cfg", "MC_NC_bad.cfg", "MC_NC_q5.cfg", "MC_NC_t5.cfg", "MC_NC_q6.cfg"]}, ["C05"], strict=False),
                    # tokens showing up at other addresses: every finished behaviour of the focused configuration is replayed
                    mc_job("nc_hijack", "MC_Netcode", {"quick": ["MC_NC_q7.cfg"], "thorough": ["MC_NC_q7.cfg"]}, ["C05"], strict=False, cap_q=1200)],
                level="model_checking", assumptions=NC_ASSUME),
    "C07": Plan("nc", "TraceNetcodeMon", ["C07"], [("shapes", g_nc_shapes), ("bits", g_nc_bits), ("handshake_histories", g_nc_handshake)],
                mc=[mc_job("nc_cross", "MC_Netcode", {"quick": ["MC_NC_q3.cfg"], "thorough": ["MC_NC_q1.cfg", "MC_NC_q3.cfg"]}, ["C07"], strict=False)],
                level="model_checking", assumptions=NC_ASSUME),
    "C10": Plan("nc", "TraceNetcodeMon", ["C10"], [("handshake_histories", g_nc_handshake), ("payload_histories", g_nc_payload)],
                mc=[mc_job("nc_table", "MC_Netcode", {"quick": ["MC_NC_q2.cfg", "MC_NC_q6.cfg"],
                                                             "thorough": ["MC_NC_q1.cfg", "MC_NC_q2.cfg", "MC_NC_q3.cfg", "MC_NC_q5.cfg", "MC_NC_q6.cfg"]}, ["C10"], strict=False, cap_q=1000),
                    mc_job("nc_limit", "MC_Netcode", {"quick": ["MC_NC_limit.cfg"], "thorough": ["MC_NC_limit.cfg"]}, ["C10"], strict=False, cap_q=400),
                    # ServerAuthentication::Unsecure: zero-key tokens listing any host connect, tokens sealed with the real key do not
                    mc_job("nc_unsec", "MC_Netcode", {"quick": ["MC_NC_unsec.cfg"], "thorough": ["MC_NC_unsec.cfg", "MC_NC_unsec_t.cfg"]}, ["C10"], strict=False, cap_q=500),
                    # a client program restarted behind the same address (second client object, fresh token, same id)
                    mc_job("nc_restart", "MC_Netcode", {"quick": ["MC_NC_restart.cfg"], "thorough": ["MC_NC_restart.cfg"]}, ["C10"], strict=False, cap_q=500)],
                level="model_checking", assumptions=NC_ASSUME),
    "C16": Plan("msg", "TraceRenetMon", ["C16"],
                [("wire_renet", g_wire_renet, "msg", "TraceRenetMon"), ("wire_netcode", g_wire_netcode, "nc", "TraceNetcodeMon"),
                 ("sizes", g_sizes, "msg", "TraceRenetMon")],
                mc=[wire_job,
                    # add_pending_ack / acked_largest / the ack codec as functions against a declarative contract, for EVERY canonical
                    # range list of the scope (not only the reachable ones) x every arriving sequence number
                    mc_job("wire_contract", "MC_WireContract", {"quick": ["MC_WireContract.cfg", "MC_WireContract_c1.cfg"],
                                                                 "thorough": ["MC_WireContract.cfg", "MC_WireContract_c1.cfg", "MC_WireContract_t.cfg"]},
                           ["C16"], export=False, strict=False)],
                level="model_checking", assumptions=MSG_ASSUME,
                rule="round-trip cases: every reachable pending-ack range list of the model shifted across the varint width boundaries, packets of "
                     "every kind with fields at 0/1/63/64/16383/16384/2^30-1/2^30/2^62-1, netcode packets of every kind x 15 sequence values x "
                     "payload lengths, tokens with 1..32 IPv4/IPv6 addresses, byte strings (valid encodings, truncations, byte replacements, "
                     "random) for decode-reencode-decode; all cases count as non-trivial, distinct = different step lists"),
    "C20": Plan("stack", "TraceTransportMon", ["C20"], [("stack", g_stack), ("stack_twin", g_stack_twin), ("stack_restart", g_stack_restart)],
                mc=[mc_job("transport_glue", "MC_Transport", {"quick": ["MC_C20_q1.cfg", "MC_C20_q2.cfg"], "thorough": ["MC_C20_q1.cfg", "MC_C20_q2.cfg"]}, ["C20"], strict=False,
                           cap_q=250, cap_t=5000),
                    # liveness under weak fairness of every endpoint (TLC temporal checking, nothing exported)
                    mc_job("transport_liveness", "MC_Transport", {"quick": ["MC_C20_live1.cfg"], "thorough": ["MC_C20_live1.cfg", "MC_C20_live.cfg"]}, ["C20"],
                           export=False, strict=False, timeout_t=5400)],
                level="model_checking", assumptions=[
                    "TLC (trace monitor) and the observer module spec/TransportObs.tla are the oracle",
                    "loopback UDP sockets; the relay (harness) sees every datagram; time is the duration argument of the transports' update"],
                rule="relay fault schedules (drop / duplicate / hold / replay / single-bit corruption per datagram and direction) over 2-3 real "
                     "client transports and one server transport on loopback UDP, with application / peer / transport initiated disconnects "
                     "and cut-off clients; distinct = different step lists; every schedule contains faults"),
    "C17": Plan("nc", "TraceNetcodeMon", ["C17"], [("bits", g_nc_bits), ("handshake_histories", g_nc_handshake), ("payload_histories", g_nc_payload),
                                                       ("denied_retry", g_nc_denied_retry)],
                mc=[mc_job("nc_nonce", "MC_Netcode", {"quick": ["MC_NC_q3.cfg"], "thorough": ["MC_NC_q1.cfg", "MC_NC_q2.cfg", "MC_NC_q3.cfg", "MC_NC_q4.cfg"]}, ["C17"], strict=False)],
                level="model_checking", assumptions=NC_ASSUME),
    "C18": Plan("nc", "TraceNetcodeMon", ["C18"], [("liveness", g_nc_live)],
                mc=[mc_job("nc_live", "MC_Netcode", {"quick": ["MC_NC_live_q.cfg", "MC_NC_heal.cfg", "MC_NC_heal3.cfg"],
                                                            "thorough": ["MC_NC_live_q.cfg", "MC_NC_heal.cfg", "MC_NC_heal3.cfg", "MC_NC_heal2.cfg", "MC_NC_limit.cfg", "MC_NC_live.cfg"]}, ["C18"], strict=False,
                           cap_q=1200, timeout_t=3600)],
                level="model_checking", assumptions=NC_ASSUME),
    "C19": Plan("nc", "TraceNetcodeMon", ["C19"], [("handshake_histories", g_nc_handshake), ("shapes", g_nc_shapes), ("token_table", g_nc_tokentable_thorough)],
                mc=[mc_job("nc_cross", "MC_Netcode", {"quick": ["MC_NC_q1.cfg", "MC_NC_q5.cfg", "MC_NC_q6.cfg"],
                                                             "thorough": ["MC_NC_q1.cfg", "MC_NC_q3.cfg", "MC_NC_bad.cfg", "MC_NC_q5.cfg", "MC_NC_t5.cfg", "MC_NC_q6.cfg", "MC_NC_q7.cfg"]}, ["C19"], strict=False)],
                level="model_checking", assumptions=NC_ASSUME),
    "C01": Plan("msg", "TraceRenetMon", ["C01"], [("random_ro", g_random_ro), ("random_mixed", g_random_mixed)],
                mc=[mc_job("conn_ro", "MC_Conn", {"quick": ["MC_C01_q1.cfg"], "thorough": ["MC_C01_q1.cfg", "MC_C01_t1.cfg", "MC_C01_t2.cfg"]}, ["C01"])],
                level="model_checking", assumptions=MSG_ASSUME),
    "C02": Plan("msg", "TraceRenetMon", ["C02"], [("random_ru", g_random_ru), ("random_mixed", g_random_mixed)],
                mc=[mc_job("conn_ru", "MC_Conn", {"quick": ["MC_C02_q1.cfg", "MC_C02_q2.cfg", "MC_C02_t1.cfg", "MC_C02_q3.cfg"], "thorough": ["MC_C02_q1.cfg", "MC_C02_q2.cfg", "MC_C02_t1.cfg", "MC_C02_q3.cfg"]}, ["C02"], cap_q=400)],
                level="model_checking", assumptions=MSG_ASSUME),
    "C03": Plan("msg", "TraceRenetMon", ["C03"], [("random_u", g_random_u), ("random_mixed", g_random_mixed)],
                mc=[mc_job("conn_u", "MC_Conn", {"quick": ["MC_C03_q1.cfg", "MC_C03_q2.cfg"], "thorough": ["MC_C03_q1.cfg", "MC_C03_q2.cfg", "MC_C03_t1.cfg"]}, ["C03"])],
                level="model_checking", assumptions=MSG_ASSUME),
    "C06": Plan("msg", "TraceRenetMon", ["C06", "C01", "C02", "C03"], [("hostile", g_hostile)],
                mc=[mc_job("conn_hostile", "MC_Conn", {"quick": ["MC_C06_q1.cfg"], "thorough": ["MC_C06_q1.cfg", "MC_C06_t1.cfg"]}, ["C06"])],
                level="model_checking", assumptions=MSG_ASSUME,
                rule="hostile datagrams: model-exported abstract boundary packets + structural field-boundary packets, truncations, header-byte "
                     "replacements and seeded random strings, each injected into a connection in one of the state classes fresh / mid-reassembly / "
                     "buffered / drained / disconnected; distinct = different step lists"),
    "C08": Plan("msg", "TraceRenetMon", ["C08"], [("random_acks", g_random_acks), ("random_mixed", g_random_mixed)],
                mc=[mc_job("conn_acks", "MC_Conn", {"quick": ["MC_C08_q1.cfg", "MC_C08_q2.cfg"], "thorough": ["MC_C08_q1.cfg", "MC_C08_q2.cfg", "MC_C01_t1.cfg"]}, ["C08"]),
                    # "never acknowledges a sequence number it did not receive": the range list as a function, every canonical list
                    mc_job("wire_contract", "MC_WireContract", {"quick": ["MC_WireContract.cfg"], "thorough": ["MC_WireContract.cfg", "MC_WireContract_t.cfg"]},
                           ["C08"], export=False, strict=False)],
                level="model_checking", assumptions=MSG_ASSUME),
    "C09": Plan("msg", "TraceRenetMon", ["C09"], [("random_mem", g_random_mem), ("random_mixed", g_random_mixed)],
                mc=[mc_job("conn_mem", "MC_Conn", {"quick": ["MC_C09_q1.cfg", "MC_C09_q2.cfg", "MC_C09_q3.cfg", "MC_C09_q4.cfg", "MC_C09_q5.cfg"],
                                                    "thorough": ["MC_C09_q1.cfg", "MC_C09_q2.cfg", "MC_C09_q3.cfg", "MC_C09_q4.cfg", "MC_C09_q5.cfg", "MC_C09_t1.cfg"]}, ["C09"])],
                level="model_checking", assumptions=MSG_ASSUME),
    # isolation between channels includes the acknowledgement path: an ack caused by one channel's packet must not release another
    # channel's message (clauses of C08 on every stream, next to those of C01-C03)
    "C11": Plan("msg", "TraceRenetMon", ["C11", "C01", "C02", "C03", "C08"], [("multi", g_multi), ("random_mixed", g_random_mixed),
                                                                                 ("stack_twin", g_stack_twin, "stack", "TraceTransportMon"),
                                                                                 ("stack_churn", g_stack_churn, "stack", "TraceTransportMon")],
                mc=[mc_job("server_bcast", "MC_Server", {"quick": ["MC_C11_q1.cfg", "MC_C11_q2.cfg"], "thorough": ["MC_C11_q1.cfg", "MC_C11_q2.cfg", "MC_C11_t2.cfg"]}, ["C11", "C01", "C02", "C03", "C08"],
                           strict=False, cap_q=600, cap_t=10000)],
                level="model_checking", assumptions=MSG_ASSUME,
                rule="two or three clients on one RenetServer with independent fault schedules, unicast and broadcast(_except) on every channel "
                     "kind, one client hostile / stalled / disconnected / with a stalled reliable channel; distinct = different step lists, "
                     "non-trivial = at least one delivery and one fault"),
    "C12": Plan("msg", "TraceRenetMon", ["C12"], [("api", g_api)],
                mc=[mc_job("server_api", "MC_Server", {"quick": ["MC_C12_q1.cfg", "MC_C12_q2.cfg"], "thorough": ["MC_C12_q1.cfg", "MC_C12_q2.cfg"]}, ["C12"], strict=False,
                           cap_q=1500, cap_t=20000)],
                level="model_checking", assumptions=MSG_ASSUME,
                rule="sequences of public API calls of RenetServer / RenetClient (table, status, traffic, undecodable packets, local clients): "
                     "every model state of the depth-5 call graph over two ids + seeded-random sequences up to 25 calls; all are non-trivial "
                     "(each contains at least one call that can disconnect)"),
    "C13": Plan("msg", "TraceRenetMon", ["C13"], [("sizes", g_sizes), ("random_mixed", g_random_mixed),
                                                   ("nc_payload", g_nc_payload, "nc", "TraceNetcodeMon"), ("nc_handshake", g_nc_handshake, "nc", "TraceNetcodeMon")],
                mc=[mc_job("conn_sizes", "MC_Conn", {"quick": ["MC_C13_q1.cfg", "MC_C13_q2.cfg"], "thorough": ["MC_C13_q1.cfg", "MC_C13_q2.cfg"]}, ["C13"])],
                level="model_checking", assumptions=MSG_ASSUME),
    "C14": Plan("msg", "TraceRenetMon", ["C14"], [("random_budget", g_random_budget)],
                mc=[mc_job("conn_budget", "MC_Conn", {"quick": ["MC_C14_q1.cfg", "MC_C14_q2.cfg", "MC_C14_q3.cfg", "MC_C14_q4.cfg"],
                                                       "thorough": ["MC_C14_q1.cfg", "MC_C14_q2.cfg", "MC_C14_q3.cfg", "MC_C14_q4.cfg", "MC_C14_t1.cfg", "MC_C14_t2.cfg"]}, ["C14"])],
                level="model_checking", assumptions=MSG_ASSUME),
    "C15": Plan("msg", "TraceRenetMon", ["C15"], [("random_timing", g_random_timing)],
                mc=[mc_job("conn_timing", "MC_Conn", {"quick": ["MC_C15_q1.cfg", "MC_C15_q2.cfg"], "thorough": ["MC_C15_q1.cfg", "MC_C15_q2.cfg"]}, ["C15"])],
                level="model_checking", assumptions=MSG_ASSUME),
}
