"""Shared plumbing for /verif/bin/check: paths, harness build, TLC runs, evidence, known findings."""
import json, os, re, subprocess, sys, time, hashlib, shutil

ROOT = os.path.dirname(os.path.dirname(os.path.abspath(__file__)))
SPEC = os.path.join(ROOT, "spec")
HARNESS = os.path.join(ROOT, "harness")
WORK = os.path.join(ROOT, "work")
EVID = os.path.join(ROOT, "evidence")
RVH = os.path.join(HARNESS, "target", "debug", "rvh")
REPO = "/repo"

JAVA_TRACE = "-Xss1g -Xmx3g -Dtlc2.tool.queue.IStateQueue=StateDeque"
JAVA_MC = "-Xss256m -Xmx12g"


class ToolError(Exception):
    pass


def tla_json(raw):
    """The argument of PrintT(<<"X", ToJson(v)>>) as printed by TLC: a TLA+ string literal holding JSON."""
    return json.loads(json.loads('"' + raw + '"'))


def seed():
    try:
        return int(os.environ.get("VERIF_SEED", "1"))
    except ValueError:
        return 1


def workdir(pid, fresh=True):
    d = os.path.join(WORK, pid)
    if fresh and os.path.isdir(d):
        shutil.rmtree(d, ignore_errors=True)
    os.makedirs(d, exist_ok=True)
    return d


def run(cmd, cwd=None, env=None, timeout=None, out=None):
    e = dict(os.environ)
    if env:
        e.update(env)
    if out:
        with open(out, "w") as f:
            p = subprocess.run(cmd, cwd=cwd, env=e, stdout=f, stderr=subprocess.STDOUT, timeout=timeout)
        return p.returncode, ""
    p = subprocess.run(cmd, cwd=cwd, env=e, stdout=subprocess.PIPE, stderr=subprocess.STDOUT, timeout=timeout, text=True)
    return p.returncode, p.stdout


def build_harness():
    """Rebuild the harness against /repo's current working tree (hooks on via the `verif` features)."""
    lock_src = os.path.join(REPO, "Cargo.lock")
    lock_dst = os.path.join(HARNESS, "Cargo.lock")
    if not os.path.exists(lock_dst):
        shutil.copy(lock_src, lock_dst)
    t0 = time.time()
    rc, out = run(["cargo", "build", "--offline", "-q"], cwd=HARNESS,
                  env={"CARGO_NET_OFFLINE": "true"}, timeout=900)
    if rc != 0:
        # retry once with a fresh lock file (the repository's lock may have changed)
        shutil.copy(lock_src, lock_dst)
        rc, out = run(["cargo", "build", "--offline", "-q"], cwd=HARNESS, env={"CARGO_NET_OFFLINE": "true"}, timeout=900)
    if rc != 0:
        raise ToolError("harness build failed:\n" + out[-4000:])
    return time.time() - t0


def rvh(args, timeout=600):
    rc, out = run([RVH] + args, timeout=timeout)
    if rc != 0:
        raise ToolError("rvh %s failed (rc=%s):\n%s" % (" ".join(args), rc, out[-2000:]))
    last = [l for l in out.strip().splitlines() if l.startswith("{")]
    return json.loads(last[-1]) if last else {}


def tlc_trace(module, trace_path, wd, timeout=600, cfg=None):
    """Monitor pass: returns (flags, cov, ok). flags = list of dicts {run,i,ev,flags:[[pid,clause],..]}."""
    meta = os.path.join(wd, "tlc-" + module + "-" + os.path.basename(trace_path))
    out = os.path.join(wd, "tlc-" + module + "-" + os.path.basename(trace_path) + ".out")
    cfgf = cfg or (module + ".cfg")
    cmd = ["timeout", str(timeout), "tlc", "-workers", "1", "-metadir", meta, "-cleanup", "-noGenerateSpecTE",
           "-config", cfgf, module + ".tla"]
    t0 = time.time()
    rc, _ = run(cmd, cwd=SPEC, env={"TRACE": trace_path, "JAVA_TOOL_OPTIONS": JAVA_TRACE}, out=out)
    dt = time.time() - t0
    text = open(out, errors="replace").read()
    shutil.rmtree(meta, ignore_errors=True)
    flags, cov = [], {}
    for m in re.finditer(r'<<"FLAG", "(.*)">>', text):
        flags.append(tla_json(m.group(1)))
    m = re.search(r'<<"COV", "(.*)">>', text)
    if m:
        cov = tla_json(m.group(1))
    ok = "Model checking completed. No error has been found." in text
    if not ok:
        tail = "\n".join(text.splitlines()[-40:])
        raise ToolError("TLC monitor %s on %s did not complete (rc=%s, %.1fs):\n%s" % (module, trace_path, rc, dt, tail))
    states = 0
    m = re.search(r"(\d+) states generated, (\d+) distinct states found", text)
    if m:
        states = int(m.group(2))
    return flags, cov, states, dt


def tlc_mc(module, cfg, wd, workers=8, timeout=1200, extra=None, env=None):
    """Model checking run. Returns dict(states, distinct, ok, violated, out_path, wall)."""
    meta = os.path.join(wd, "mc-" + os.path.basename(cfg))
    out = os.path.join(wd, "mc-" + os.path.basename(cfg) + ".out")
    # -seed makes TLC's own sampling of exported behaviours (RandomElement in ExportInv) follow VERIF_SEED
    cmd = ["timeout", str(timeout), "tlc", "-workers", str(workers), "-seed", str(seed()), "-metadir", meta, "-cleanup", "-noGenerateSpecTE",
           "-config", cfg] + (extra or []) + [module + ".tla"]
    t0 = time.time()
    e = {"JAVA_TOOL_OPTIONS": JAVA_MC}
    if env:
        e.update(env)
    rc, _ = run(cmd, cwd=SPEC, env=e, out=out)
    dt = time.time() - t0
    text = open(out, errors="replace").read()
    shutil.rmtree(meta, ignore_errors=True)
    res = {"out": out, "wall": dt, "rc": rc, "ok": False, "violated": None, "generated": 0, "distinct": 0, "depth": 0}
    m = re.search(r"(\d+) states generated, (\d+) distinct states found", text)
    if m:
        res["generated"], res["distinct"] = int(m.group(1)), int(m.group(2))
    m = re.search(r"depth of the complete state graph search is (\d+)", text)
    if m:
        res["depth"] = int(m.group(1))
    m = re.search(r"Invariant (\S+) is violated", text)
    if m:
        res["violated"] = m.group(1)
    m = re.search(r"Temporal properties (.*) were violated|Temporal property (\S+) was violated", text)
    if m:
        res["violated"] = "temporal:" + (m.group(1) or m.group(2))
    if "Model checking completed. No error has been found." in text:
        res["ok"] = True
    elif res["violated"] is None:
        tail = "\n".join(text.splitlines()[-40:])
        raise ToolError("TLC model checking %s/%s failed (rc=%s, %.1fs):\n%s" % (module, cfg, rc, dt, tail))
    res["text"] = text
    return res


def load_known():
    p = os.path.join(ROOT, "known_findings.json")
    if not os.path.exists(p):
        return []
    return json.load(open(p))


def sig_matches(match, sig):
    """A known finding matches a violation when every key of `match` equals the violation's signature."""
    for k, v in match.items():
        if sig.get(k) != v:
            return False
    return True


def write_evidence(pid, tier, level, coverage, wall, violations, assumptions=None, extra=None):
    os.makedirs(EVID, exist_ok=True)
    ev = {"property_id": pid, "tier": tier, "seed": seed(), "level": level, "coverage": coverage,
          "assumptions": assumptions or [], "wall_s": round(wall, 2), "violations": violations}
    if extra:
        ev.update(extra)
    with open(os.path.join(EVID, pid + ".json"), "w") as f:
        json.dump(ev, f, indent=1, sort_keys=True)
        f.write("\n")


def cut_run(trace_path, run_no, dst):
    """Copy the events of one run out of an ndjson trace (replay file)."""
    with open(trace_path) as f, open(dst, "w") as g:
        for line in f:
            if ('"run":%d,' % run_no) in line or ('"run":%d}' % run_no) in line:
                g.write(line)


def sha(s):
    return hashlib.sha1(s.encode()).hexdigest()[:12]


def tla_chans(chs):
    return "<<" + ", ".join('[id |-> %d, kind |-> "%s", max |-> %d, resend |-> %d]' % (c["id"], c["kind"], c["max"], c["resend"]) for c in chs) + ">>"


def tlc_strict(cfg, trace_path, wd, timeout=600, base="TraceRenetStrict"):
    """Strict pass: the recorded trace must be a behaviour of Renet.tla (same channel configuration)."""
    key = sha(base + json.dumps({k: cfg.get(k, 0) for k in ("sc", "cs", "budget", "seqbase", "midbase")}, sort_keys=True))
    mod = "SC_" + key + "_" + sha(os.path.basename(trace_path))      # one module per trace: monitors run in parallel
    d = os.path.join(wd, "strict")
    os.makedirs(d, exist_ok=True)
    with open(os.path.join(d, mod + ".tla"), "w") as f:
        f.write("---- MODULE %s ----\nEXTENDS %s\nSC_ChSC == %s\nSC_ChCS == %s\n====\n" %
                (mod, base, tla_chans(cfg["sc"]), tla_chans(cfg["cs"])))
    with open(os.path.join(d, mod + ".cfg"), "w") as f:
        f.write("SPECIFICATION Spec\nCONSTANTS\n  ChSC <- SC_ChSC\n  ChCS <- SC_ChCS\n  Budget = %d\n  SeqBase = %d\n  MidBase = %d\nINVARIANT Done\nPOSTCONDITION Consumed\nCHECK_DEADLOCK FALSE\n" % (cfg["budget"], cfg.get("seqbase", 0), cfg.get("midbase", 0)))
    meta = os.path.join(d, "meta-" + os.path.basename(trace_path))
    out = os.path.join(d, "strict-" + os.path.basename(trace_path) + ".out")
    cmd = ["timeout", str(timeout), "java", "-XX:+UseParallelGC", "-DTLA-Library=" + SPEC,
           "-cp", "/opt/veriftools/tla/tla2tools.jar:/opt/veriftools/tla/CommunityModules-deps.jar", "tlc2.TLC",
           "-workers", "1", "-metadir", meta, "-cleanup", "-noGenerateSpecTE", "-config", mod + ".cfg", mod + ".tla"]
    t0 = time.time()
    rc, _ = run(cmd, cwd=d, env={"TRACE": trace_path, "JAVA_TOOL_OPTIONS": JAVA_TRACE}, out=out)
    dt = time.time() - t0
    text = open(out, errors="replace").read()
    shutil.rmtree(meta, ignore_errors=True)
    drifts = [tla_json(m.group(1)) for m in re.finditer(r'<<"DRIFT", "(.*)">>', text)]
    m = re.search(r'<<"STRICT", "(.*)">>', text)
    stats = tla_json(m.group(1)) if m else {}
    ok = "Model checking completed. No error has been found." in text
    if not ok:
        tail = "\n".join(text.splitlines()[-30:])
        return {"ok": False, "error": tail, "drifts": drifts, "stats": stats, "wall": dt}
    return {"ok": True, "drifts": drifts, "stats": stats, "wall": dt}


MODELLED_MSG_STEPS = {"send", "recv", "update", "flush", "deliver", "drop", "hostile", "api", "get_event", "bcast", "heal", "round", "roundeach",
                      "drain", "tick"}


def strict_generated(scheds, trace_path, wd, timeout=900, max_steps=None):
    """Strict pass for traces of GENERATED message-layer schedules: the runs are grouped by channel configuration and every group is
    compared event by event with Renet.tla (one connection) / TraceServerStrict (RenetServer with several ids)."""
    # the quick tier follows the cheapest runs of every batch up to `max_steps` recorded events (a strict step costs between
    # 0.3 ms and 30 ms depending on how much reassembly state the run builds up); the thorough tier follows every run
    pat0 = re.compile(r'"run":(\d+)[,}]')
    nev = {}
    with open(trace_path) as f:
        for line in f:
            m = pat0.search(line)
            if m:
                r = int(m.group(1))
                nev[r] = nev.get(r, 0) + (3 if '"ev":"deliver"' in line else 1)
    order = sorted(range(1, len(scheds) + 1), key=lambda r: nev.get(r, 0))
    groups = {}
    spent = 0
    for no in order:
        sc = scheds[no - 1]
        cfg = sc["cfg"]
        if "sc" not in cfg:
            continue
        if max_steps is not None and spent + nev.get(no, 0) > 3 * max_steps and (groups or nev.get(no, 0) > 6 * max_steps):
            break
        spent += nev.get(no, 0)
        if not all(isinstance(cfg.get(k, 0), int) for k in ("budget", "seqbase", "midbase")):
            continue            # counters started near 2^62: beyond TLC's 32-bit integers, judged by the monitor only
        multi = len(cfg.get("conns", [1])) > 1 or cfg.get("manual") or cfg.get("conns", [1]) != [1]
        key = sha(json.dumps([multi] + [cfg.get(k, 0) for k in ("sc", "cs", "budget", "seqbase", "midbase")], sort_keys=True))
        groups.setdefault(key, {"cfg": cfg, "multi": multi, "runs": set()})["runs"].add(no)
    if not groups:
        return None
    run_of = {}
    for key, g in groups.items():
        for r in g["runs"]:
            run_of[r] = key
    d = os.path.join(wd, "strict")
    os.makedirs(d, exist_ok=True)
    files = {key: open(os.path.join(d, "gen-%s-%s" % (key, os.path.basename(trace_path))), "w") for key in groups}
    pat = re.compile(r'"run":(\d+)[,}]')
    # numbers beyond 2^30 are clamped in the log (TLC integers are 32-bit): such a run cannot be followed by the model
    clamped = set()
    with open(trace_path) as f:
        for line in f:
            if "1073741823" in line:
                m = pat.search(line)
                if m:
                    clamped.add(int(m.group(1)))
    # last use of every flush: the index of the last event of its run that delivers one of its packets (see Prune in the specs)
    last_use = {}
    with open(trace_path) as f:
        for line in f:
            if '"ev":"deliver"' in line and '"label":"genuine"' in line:
                e = json.loads(line)
                sender = "C" if e["side"] == "S" else "S"
                last_use[(e["run"], e.get("conn", 1), sender, e["fl"])] = e["i"]
    with open(trace_path) as f:
        for line in f:
            m = pat.search(line)
            if m and int(m.group(1)) in run_of and int(m.group(1)) not in clamped:
                if '"ev":"flush"' in line:
                    e = json.loads(line)
                    e["last_use"] = last_use.get((e["run"], e.get("conn", 1), e["side"], e["fl"]), 0)
                    line = json.dumps(e, separators=(",", ":")) + "\n"
                files[run_of[int(m.group(1))]].write(line)
    for fh in files.values():
        fh.close()
    tot = {"ok": True, "drifts": [], "stats": {}, "wall": 0.0}
    for key, g in groups.items():
        r = tlc_strict(g["cfg"], files[key].name, wd, timeout=timeout, base=("TraceServerStrict" if g["multi"] else "TraceRenetStrict"))
        os.remove(files[key].name)
        tot["wall"] += r["wall"]
        if not r["ok"]:
            tot["ok"] = False
            tot["error"] = r.get("error", "")
        tot["drifts"] += r["drifts"]
        for k, v in r["stats"].items():
            tot["stats"][k] = tot["stats"].get(k, 0) + v
    return tot


def export_paths(text):
    """Parse the PATH / CFG lines printed by an exporting model-checking run; keep the maximal paths."""
    cfg = None
    m = re.search(r'<<"CFG", "(.*)">>', text)
    if m:
        cfg = tla_json(m.group(1))
    paths = []
    for m in re.finditer(r'<<"PATH", "(.*)">>', text):
        paths.append(tla_json(m.group(1)))
    keys = {}
    for p in paths:
        keys[json.dumps(p["steps"], sort_keys=True)] = p
    if all(p.get("done") for p in paths):
        # only finished behaviours were exported: none is a prefix of another one that matters
        return cfg, list(keys.values()), len(paths)
    # a path is maximal when no other exported path extends it
    prefixes = set()
    for p in paths:
        st = p["steps"]
        for n in range(len(st)):
            prefixes.add(json.dumps(st[:n], sort_keys=True))
    maximal = [p for k, p in keys.items() if k not in prefixes]
    return cfg, maximal, len(paths)


def tlc_strict_nc(mc_cfg, trace_path, wd, timeout=600):
    """Strict pass for netcode traces exported from the MC_Netcode configuration `mc_cfg` (its constants are reused)."""
    import re as _re
    d = os.path.join(wd, "strict")
    os.makedirs(d, exist_ok=True)
    text = open(os.path.join(SPEC, mc_cfg)).read()
    consts = text[text.index("CONSTANTS"):text.index("INVARIANT")]
    # the strict pass compares with the code AS IT IS: the deviation switch of the known finding D18 is set to the code's behaviour
    consts = consts.replace("TokenSingleUse = TRUE", "TokenSingleUse = FALSE")
    cfgf = os.path.join(d, "strictnc-" + os.path.basename(trace_path) + ".cfg")
    with open(cfgf, "w") as f:
        f.write("SPECIFICATION SSpec\n" + consts + "INVARIANT SDone\nPOSTCONDITION Consumed\nCHECK_DEADLOCK FALSE\n")
    meta = os.path.join(d, "meta-" + os.path.basename(trace_path))
    out = os.path.join(d, "strictnc-" + os.path.basename(trace_path) + ".out")
    cmd = ["timeout", str(timeout), "tlc", "-workers", "1", "-metadir", meta, "-cleanup", "-noGenerateSpecTE", "-config", cfgf, "TraceNetcodeStrict.tla"]
    t0 = time.time()
    rc, _ = run(cmd, cwd=SPEC, env={"TRACE": trace_path, "JAVA_TOOL_OPTIONS": JAVA_TRACE}, out=out)
    dt = time.time() - t0
    text = open(out, errors="replace").read()
    shutil.rmtree(meta, ignore_errors=True)
    drifts = [tla_json(m.group(1)) for m in _re.finditer(r'<<"DRIFT", "(.*)">>', text)]
    m = _re.search(r'<<"STRICT", "(.*)">>', text)
    stats = tla_json(m.group(1)) if m else {}
    ok = "Model checking completed. No error has been found." in text
    if not ok:
        return {"ok": False, "error": "\n".join(text.splitlines()[-30:]), "drifts": drifts, "stats": stats, "wall": dt}
    return {"ok": True, "drifts": drifts, "stats": stats, "wall": dt}


def tlc_strict_dyn(trace_path, wd, timeout=900):
    """Strict pass for netcode traces of any schedule: tokens / clients are read from the trace (TraceNetcodeDyn)."""
    d = os.path.join(wd, "strict")
    os.makedirs(d, exist_ok=True)
    cfgf = os.path.join(d, "strictdyn-" + os.path.basename(trace_path) + ".cfg")
    with open(cfgf, "w") as f:
        f.write("SPECIFICATION Spec\nINVARIANT Done\nPOSTCONDITION Consumed\nCHECK_DEADLOCK FALSE\n")
    meta = os.path.join(d, "metadyn-" + os.path.basename(trace_path))
    out = os.path.join(d, "strictdyn-" + os.path.basename(trace_path) + ".out")
    cmd = ["timeout", str(timeout), "tlc", "-workers", "1", "-metadir", meta, "-cleanup", "-noGenerateSpecTE", "-config", cfgf, "TraceNetcodeDyn.tla"]
    t0 = time.time()
    rc, _ = run(cmd, cwd=SPEC, env={"TRACE": trace_path, "JAVA_TOOL_OPTIONS": JAVA_TRACE}, out=out)
    dt = time.time() - t0
    text = open(out, errors="replace").read()
    shutil.rmtree(meta, ignore_errors=True)
    drifts = [tla_json(m.group(1)) for m in re.finditer(r'<<"DRIFT", "(.*)">>', text)]
    m = re.search(r'<<"STRICT", "(.*)">>', text)
    stats = tla_json(m.group(1)) if m else {}
    ok = "Model checking completed. No error has been found." in text
    if not ok:
        return {"ok": False, "error": "\n".join(text.splitlines()[-30:]), "drifts": drifts, "stats": stats, "wall": dt}
    return {"ok": True, "drifts": drifts, "stats": stats, "wall": dt}


def tlc_strict_transport(mc_cfg, trace_path, wd, timeout=600):
    """Strict pass for stack traces of behaviours exported from MC_Transport (TraceTransportStrict)."""
    d = os.path.join(wd, "strict")
    os.makedirs(d, exist_ok=True)
    text = open(os.path.join(SPEC, mc_cfg)).read()
    m = re.search(r"Ids = (\{[^}]*\})", text)
    cfgf = os.path.join(d, "stricttr-" + os.path.basename(trace_path) + ".cfg")
    with open(cfgf, "w") as f:
        extra = "".join("  %s\n" % x.strip() for x in text.splitlines() if x.strip().startswith(("StepDt", "TimeoutS ", "TimeoutS=", "TimeoutSteps")))
        f.write("SPECIFICATION SSpec\nCONSTANTS\n  Ids = %s\n  MaxSteps = 1000000\n  MaxDisc = 1000000\n  Export = FALSE\n  ExportOneIn = 1\n%s"
                "INVARIANT SDone\nCHECK_DEADLOCK FALSE\n" % (m.group(1) if m else "{1, 2}", extra))
    meta = os.path.join(d, "metatr-" + os.path.basename(trace_path))
    out = os.path.join(d, "stricttr-" + os.path.basename(trace_path) + ".out")
    cmd = ["timeout", str(timeout), "tlc", "-workers", "1", "-metadir", meta, "-cleanup", "-noGenerateSpecTE", "-config", cfgf, "TraceTransportStrict.tla"]
    t0 = time.time()
    rc, _ = run(cmd, cwd=SPEC, env={"TRACE": os.path.abspath(trace_path), "JAVA_TOOL_OPTIONS": JAVA_TRACE}, out=out)
    dt = time.time() - t0
    text = open(out, errors="replace").read()
    shutil.rmtree(meta, ignore_errors=True)
    drifts = [tla_json(m.group(1)) for m in re.finditer(r'<<"DRIFT", "(.*)">>', text)]
    m = re.search(r'<<"STRICT", "(.*)">>', text)
    stats = tla_json(m.group(1)) if m else {}
    ok = "Model checking completed. No error has been found." in text and bool(stats)
    if not ok:
        return {"ok": False, "error": "\n".join(text.splitlines()[-30:]), "drifts": drifts, "stats": stats, "wall": dt}
    return {"ok": True, "drifts": drifts, "stats": stats, "wall": dt}


def tlaps_proof(module, wd, timeout=900):
    """Check a TLAPS proof (tlapm) of spec/<module>.tla in a scratch directory; returns obligations proved / failed."""
    d = os.path.join(wd, "tlaps")
    shutil.rmtree(d, ignore_errors=True)
    os.makedirs(d)
    shutil.copy(os.path.join(SPEC, module + ".tla"), d)
    out = os.path.join(d, module + ".out")
    t0 = time.time()
    rc, _ = run(["timeout", str(timeout), "tlapm", "--threads", "4", module + ".tla"], cwd=d, out=out)
    text = open(out, errors="replace").read()
    m = re.search(r"All (\d+) obligations? proved", text)
    f = re.search(r"(\d+)/(\d+) obligations failed", text)
    return {"module": module, "ok": bool(m), "proved": int(m.group(1)) if m else (int(f.group(2)) - int(f.group(1)) if f else 0),
            "failed": int(f.group(1)) if f else (0 if m else -1), "wall_s": round(time.time() - t0, 1)}
