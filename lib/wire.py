"""Byte-level encoders used only to BUILD hostile / crafted inputs (the harness reads packets with the crate's own decoder)."""


def varint(v):
    if v <= 63:
        return bytes([v])
    if v <= 16383:
        return bytes([0x40 | (v >> 8), v & 0xFF])
    if v <= 1073741823:
        return bytes([0x80 | (v >> 24), (v >> 16) & 0xFF, (v >> 8) & 0xFF, v & 0xFF])
    return bytes([0xC0 | ((v >> 56) & 0x3F)]) + (v & ((1 << 56) - 1)).to_bytes(7, "big")


def small_reliable(seq, ch, msgs):
    b = bytes([0]) + varint(seq) + bytes([ch]) + len(msgs).to_bytes(2, "big")
    for mid, payload in msgs:
        b += varint(mid) + varint(len(payload)) + payload
    return b


def small_unreliable(seq, ch, msgs):
    b = bytes([1]) + varint(seq) + bytes([ch]) + len(msgs).to_bytes(2, "big")
    for payload in msgs:
        b += varint(len(payload)) + payload
    return b


def slice_packet(reliable, seq, ch, mid, idx, n, payload, declared_len=None):
    b = bytes([2 if reliable else 3]) + varint(seq) + bytes([ch]) + varint(mid) + varint(idx) + varint(n)
    b += varint(len(payload) if declared_len is None else declared_len) + payload
    return b


def ack(seq, ranges):
    """ranges: ascending list of (lo, hi) with hi exclusive."""
    rs = list(reversed(ranges))
    last = rs[0]
    b = bytes([4]) + varint(seq) + varint(last[1] - 1) + varint((last[1] - 1) - last[0]) + varint(len(rs) - 1)
    prev = last[0]
    for lo, hi in rs[1:]:
        b += varint(prev - hi - 1) + varint((hi - 1) - lo)
        prev = lo
    return b


def ack_raw(seq, first_end, first_size, rest):
    b = bytes([4]) + varint(seq) + varint(first_end) + varint(first_size) + varint(len(rest))
    for gap, size in rest:
        b += varint(gap) + varint(size)
    return b
