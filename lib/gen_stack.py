"""Schedule generators for the full UDP stack world (rvh stack), C20."""


def stack_schedules(rng, props, n, full=False, modes=("interference", "interference", "disconnects", "churn", "churn", "silence")):
    out = []
    for i in range(n):
        mode = rng.choice(list(modes))
        # churn_hole: slots are handed out in join order; a client in a low slot leaves, then one in a higher slot with a bystander
        # between them: the bystander's session must survive both departures
        hole = mode == "churn_hole"
        if hole:
            mode = "churn"
        clients = [1, 2] if rng.random() < 0.6 else [1, 2, 3]
        if mode == "churn":
            clients = [1, 2, 3, 4] if (hole or rng.random() < 0.5) else [1, 2, 3]
        timeout = 2 if mode != "interference" else 5
        dt = rng.choice([50, 100, 100])
        # half of the runs: exactly as many slots as clients (every handshake races for "the last free slot" at some point)
        cfg = {"clients": clients, "max_clients": (len(clients) if rng.random() < 0.5 else 4), "timeout_s": timeout, "props": props,
               "allow_timeouts": mode == "silence"}
        steps = []
        tag = [1]

        def ops(p_fault):
            k = rng.randint(1, 6)
            o = []
            for _ in range(k):
                r = rng.random()
                if r < 1 - p_fault:
                    o.append("pass")
                else:
                    o.append(rng.choice(["drop", "drop", "dup", "hold", "late", "late", "store", "flip%d" % rng.randrange(0, 400)]))
            return o

        def traffic():
            for c in clients:
                if rng.random() < 0.5:
                    ch = rng.choice([0, 1, 2, 2])
                    ln = rng.choice([0, 5, 300, 1201, 3000])
                    t = 0 if ln == 0 else tag[0]
                    tag[0] += 1
                    steps.append({"a": "send", "c": c, "dir": rng.choice(["cs", "sc"]), "ch": ch, "tag": t, "len": ln})

        # connect under mild interference
        asked = set()
        silent = None
        p_fault = rng.choice([0.1, 0.25, 0.4])
        # churn: clients join one after the other and leave (on their own initiative) in some order, late joiners take freed slots
        join = {c: 0 for c in clients}
        leave = {}
        if mode == "churn":
            p_fault = rng.choice([0.0, 0.1])
            for k, c in enumerate(clients):
                join[c] = k * 10
            if hole:
                leavers = [1, 3]        # slots 1 and 3 are freed in this order, client 2 sits between them, client 4 joins late
            else:
                leavers = rng.sample(clients[:-1], rng.randint(1, len(clients) - 1))
            if hole or rng.random() < 0.5:
                leavers.sort()      # lower slots are freed first
            late = clients[-1]
            join[late] = 10 * len(clients) + 25
            for k, c in enumerate(leavers):
                leave[c] = 10 * (len(clients) - 1) + 12 + 6 * k
        nticks = rng.randint(14, 40) if mode != "churn" else 10 * len(clients) + 45
        for t in range(nticks):
            if t > 8:
                traffic()
            for c, when in leave.items():
                if t == when:
                    asked.add(c)
                    steps.append({"a": "disc", "c": c, "who": rng.choice(["client", "client_transport"])})
            if mode == "disconnects" and t > 10 and rng.random() < 0.08:
                c = rng.choice(clients)
                if c not in asked:
                    asked.add(c)
                    steps.append({"a": "disc", "c": c, "who": rng.choice(["server", "client", "client_transport"])})
            if mode == "silence" and t == 12:
                silent = rng.choice(clients)
            for c in clients:
                if t < join[c]:
                    continue
                steps.append({"a": "cstep", "c": c, "dt": dt})
                steps.append({"a": "relay", "c": c, "dir": "up", "ops": (["drop"] if c == silent else ops(p_fault))})
            steps.append({"a": "sstep", "dt": dt})
            for c in clients:
                if t < join[c]:
                    continue
                steps.append({"a": "relay", "c": c, "dir": "down", "ops": (["drop"] if c == silent else ops(p_fault))})
                if rng.random() < 0.15:
                    steps.append({"a": "inject", "c": c, "dir": rng.choice(["up", "down"]), "n": rng.randint(1, 4), "from": rng.randint(0, 9)})
                if rng.random() < 0.5:
                    steps.append({"a": "recv", "c": c, "dir": rng.choice(["cs", "sc"])})
        if mode == "silence":
            # the silent client is cut off for longer than the timeout: both sides must give up on it
            for t in range((timeout * 1000) // dt + 6):
                for c in clients:
                    steps.append({"a": "cstep", "c": c, "dt": dt})
                    steps.append({"a": "relay", "c": c, "dir": "up", "ops": (["drop"] if c == silent else ["pass"])})
                steps.append({"a": "sstep", "dt": dt})
                for c in clients:
                    steps.append({"a": "relay", "c": c, "dir": "down", "ops": (["drop"] if c == silent else ["pass"])})
            steps.append({"a": "mark", "mark": "disc", "c": silent, "who": "timeout"})
        bound = (timeout * 1000) // dt + 12
        steps.append({"a": "mark", "mark": "heal", "bound": bound})
        steps.append({"a": "round", "dt": dt, "n": bound + 2})
        out.append({"id": "stack-%d-%s" % (i, mode), "cfg": cfg, "steps": steps})
    return out


def twin_schedules(rng, props, n):
    """Two clients holding tokens for ONE client id (different sockets / addresses, harness clients 1 and 3) race through the
    handshake next to a bystander (2): both are challenged before either answers; at most one of them may end up connected, and
    whatever the loser keeps sending must never surface under that id."""
    out = []
    for i in range(n):
        dt = rng.choice([100, 250])
        cfg = {"clients": [1, 2, 3], "alias": {"3": 1}, "twins": [[3, 1]], "max_clients": 4, "timeout_s": 2, "props": props, "allow_timeouts": True}
        steps = []
        tag = [1]

        def relay(c, d, ops):
            steps.append({"a": "relay", "c": c, "dir": d, "ops": ops})

        def msg(c, d):
            steps.append({"a": "send", "c": c, "dir": d, "ch": rng.choice([0, 1, 2]), "tag": tag[0], "len": rng.choice([5, 300, 1201])})
            tag[0] += 1
        # requests of all three, challenges back
        for c in (1, 3, 2):
            steps.append({"a": "cstep", "c": c, "dt": dt})
            relay(c, "up", ["pass"])
        steps.append({"a": "sstep", "dt": dt})
        for c in (1, 3, 2):
            relay(c, "down", ["pass"])
        # responses: the twins answer in either order, optionally one of them a step later (its datagram is held)
        first, second = rng.choice([(1, 3), (3, 1)])
        late = rng.random() < 0.5
        for c in (first, second, 2):
            steps.append({"a": "cstep", "c": c, "dt": max(dt, 250)})
            relay(c, "up", ["hold"] if (late and c == second) else ["pass"])
        steps.append({"a": "sstep", "dt": dt})
        if late:
            relay(second, "up", ["pass"])
            steps.append({"a": "sstep", "dt": dt})
        # traffic from everybody, good rounds, the server application drains what arrived under every id
        for t in range(rng.randint(6, 12)):
            for c in (1, 3, 2):
                if rng.random() < 0.7:
                    msg(c, "cs")
                steps.append({"a": "cstep", "c": c, "dt": dt})
                relay(c, "up", ["pass"])
            steps.append({"a": "sstep", "dt": dt})
            for c in (1, 3, 2):
                relay(c, "down", ["pass"])
            for c in (1, 2):
                steps.append({"a": "recv", "c": c, "dir": "cs"})
        out.append({"id": "twin-%d" % i, "cfg": cfg, "steps": steps})
    return out


def restart_schedules(rng, props, n):
    """A client program is restarted behind the same address: client 1 leaves (its Disconnect datagrams are lost, or reach the
    server), and client 11 -- a new client object with a fresh connect token for the SAME client id -- shows up at the server under
    the address of client 1 (the same relay socket) before or after the server gave up on the old session.  Whatever the server
    makes of it, both of its layers agree on who is connected after every update, connects and disconnects alternate per id, and
    nothing of the old session leaks into the new one.  A bystander (2) keeps its session."""
    out = []
    for i in range(n):
        dt = rng.choice([50, 100, 250])
        timeout = rng.choice([2, 2, 5])
        cfg = {"clients": [1, 2, 11], "alias": {"11": 1}, "twins": [[11, 1]], "share_up": {"11": 1}, "max_clients": rng.choice([2, 4]),
               "timeout_s": timeout, "props": props, "allow_timeouts": True}
        steps = []
        tag = [1]

        def msg(c, d):
            steps.append({"a": "send", "c": c, "dir": d, "ch": rng.choice([0, 1, 2, 2]), "tag": tag[0], "len": rng.choice([5, 300, 1201])})
            tag[0] += 1

        def tick(cs, up=None, down=None, traffic=True):
            for c in cs:
                if traffic and rng.random() < 0.5:
                    msg(c, rng.choice(["cs", "sc"]))
                steps.append({"a": "cstep", "c": c, "dt": dt})
                steps.append({"a": "relay", "c": c, "dir": "up", "ops": (up or {}).get(c, ["pass"])})
            steps.append({"a": "sstep", "dt": dt})
            for c in cs:
                steps.append({"a": "relay", "c": c, "dir": "down", "ops": (down or {}).get(c, ["pass"])})
                if rng.random() < 0.6:
                    steps.append({"a": "recv", "c": c, "dir": rng.choice(["cs", "sc"])})
        # 1 and 2 connect and talk
        for _ in range(rng.randint(8, 14)):
            tick([1, 2], traffic=_ > 5)
        # client 1 leaves; its farewell is lost (the usual case when a program is killed) or gets through
        lost = rng.random() < 0.7
        steps.append({"a": "disc", "c": 1, "who": rng.choice(["client", "client_transport"])})
        for _ in range(2):
            tick([1, 2], up={1: ["drop"] if lost else ["pass"]}, down={1: ["drop"]}, traffic=False)
        # the restarted program takes over the address: at once, or after a while (before / after the server's timeout)
        wait = rng.choice([0, 0, 2, (timeout * 1000) // dt // 2, (timeout * 1000) // dt + 2])
        for _ in range(wait):
            tick([2])
        steps.append({"a": "takeover", "c": 11})
        for _ in range((timeout * 1000) // dt + rng.randint(6, 16)):
            tick([2, 11])
        steps.append({"a": "round", "dt": dt, "n": 6})
        out.append({"id": "restart-%d" % i, "cfg": cfg, "steps": steps})
    return out
