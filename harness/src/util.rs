//! Small helpers shared by the worlds: content generator, panic capture, number clamping.
use serde_json::Value;
use std::panic::{catch_unwind, AssertUnwindSafe};

/// Largest integer the TLA+ side may see (TLC integers are 32 bit).
pub const BIG: i64 = (1 << 30) - 1;

/// Clamp a u64 (relative to `base`) into the range TLC can read; out-of-range values become `BIG`.
pub fn rel(v: u64, base: u64) -> i64 {
    if v >= base && v - base < BIG as u64 {
        (v - base) as i64
    } else {
        BIG
    }
}

pub fn small(v: u64) -> i64 {
    rel(v, 0)
}

fn mix(mut x: u64) -> u64 {
    x ^= x >> 30;
    x = x.wrapping_mul(0xBF58476D1CE4E5B9);
    x ^= x >> 27;
    x = x.wrapping_mul(0x94D049BB133111EB);
    x ^= x >> 31;
    x
}

/// Position dependent message content: byte i depends on (tag, i); the first four bytes spell the
/// tag so that two different tags of length >= 4 can never produce the same bytes.
pub fn content(tag: u64, len: usize) -> Vec<u8> {
    let mut v = Vec::with_capacity(len);
    for i in 0..len {
        let x = mix(tag.wrapping_mul(0x9E3779B97F4A7C15) ^ (i as u64).wrapping_mul(0xD1B54A32D192ED03) ^ 0xA5A5_5A5A_1234_5678);
        v.push((x >> 24) as u8);
    }
    let t = (tag as u32).to_le_bytes();
    for i in 0..len.min(4) {
        v[i] = t[i];
    }
    v
}

/// Tiny deterministic PRNG (splitmix64).
pub struct Rng(pub u64);
impl Rng {
    pub fn next(&mut self) -> u64 {
        self.0 = self.0.wrapping_add(0x9E3779B97F4A7C15);
        mix(self.0)
    }
    pub fn below(&mut self, n: u64) -> u64 {
        if n == 0 {
            0
        } else {
            self.next() % n
        }
    }
}

/// Run a closure against the code under test; a panic is data, not a crash.
pub fn guarded<T>(f: impl FnOnce() -> T) -> Result<T, String> {
    match catch_unwind(AssertUnwindSafe(f)) {
        Ok(v) => Ok(v),
        Err(e) => {
            let msg = if let Some(s) = e.downcast_ref::<&str>() {
                s.to_string()
            } else if let Some(s) = e.downcast_ref::<String>() {
                s.clone()
            } else {
                "panic".to_string()
            };
            Err(msg)
        }
    }
}

pub fn silence_panics() {
    std::panic::set_hook(Box::new(|_| {}));
}

pub fn hex(b: &[u8]) -> String {
    let mut s = String::with_capacity(b.len() * 2);
    for x in b {
        s.push_str(&format!("{:02x}", x));
    }
    s
}

pub fn unhex(s: &str) -> Vec<u8> {
    let b = s.as_bytes();
    let mut v = Vec::with_capacity(b.len() / 2);
    let mut i = 0;
    while i + 1 < b.len() {
        let h = (b[i] as char).to_digit(16).unwrap_or(0) as u8;
        let l = (b[i + 1] as char).to_digit(16).unwrap_or(0) as u8;
        v.push(h << 4 | l);
        i += 2;
    }
    v
}

pub fn geti(v: &Value, k: &str) -> i64 {
    v.get(k).and_then(|x| x.as_i64()).unwrap_or(0)
}
pub fn getu(v: &Value, k: &str) -> u64 {
    // numbers above 2^31 are written as strings (TLC reads the same file and has 32-bit integers)
    match v.get(k) {
        Some(Value::String(s)) => s.parse().unwrap_or(0),
        Some(x) => x.as_u64().unwrap_or(0),
        None => 0,
    }
}
pub fn gets<'a>(v: &'a Value, k: &str) -> &'a str {
    v.get(k).and_then(|x| x.as_str()).unwrap_or("")
}
pub fn getb(v: &Value, k: &str) -> bool {
    v.get(k).and_then(|x| x.as_bool()).unwrap_or(false)
}
