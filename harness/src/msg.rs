//! Message-layer world: one RenetServer, N RenetClients, a harness-owned network.
//! Executes schedules (JSON) against the real code and records one ndjson event per public call.
use crate::util::*;
use bytes::Bytes;
use renet::verif::{Packet, Slice, SLICE_SIZE};
use renet::{ChannelConfig, ConnectionConfig, DisconnectReason, RenetClient, RenetServer, SendType, ServerEvent};
use serde_json::{json, Value};
use std::collections::{BTreeMap, HashMap};
use std::io::Write;
use std::time::Duration;

#[derive(Clone)]
pub struct Chan {
    pub id: u8,
    pub kind: String, // "U" | "RO" | "RU"
    pub max: usize,
    pub resend: u64,
}

#[derive(Clone)]
pub struct Pkt {
    pub bytes: Vec<u8>,
    pub desc: Value,
    pub delivered: u32,
}

pub struct World {
    pub server: RenetServer,
    pub clients: BTreeMap<u64, RenetClient>,
    pub sc: Vec<Chan>,
    pub cs: Vec<Chan>,
    pub seqbase: u64,
    pub midbase: u64,
    // content interning: bytes -> canonical tag
    pub intern: HashMap<Vec<u8>, i64>,
    // (n, idx, fragment) -> cid of the whole message
    pub frags: HashMap<(usize, usize, Vec<u8>), i64>,
    // cid -> message bytes (to check a slice against the exact fragment it claims to be)
    pub bodies: HashMap<i64, Vec<u8>>,
    // (conn, sender side, channel, reliable?, message id) -> cid, learnt from the first slice (1200 bytes, carries the tag)
    pub slicemap: HashMap<(u64, char, u8, bool, u64), i64>,
    // flushes[(conn, side)] = list of flushes, each a list of packets
    pub flushes: HashMap<(u64, char), Vec<Vec<Pkt>>>,
    pub inflight: HashMap<(u64, char), Vec<(usize, usize)>>,
    pub tclock: HashMap<(u64, char), u64>,
    pub sclock: u64,
    pub dead: bool,
}

fn chans_from(v: &Value) -> Vec<Chan> {
    v.as_array()
        .map(|a| {
            a.iter()
                .map(|c| Chan {
                    id: getu(c, "id") as u8,
                    kind: gets(c, "kind").to_string(),
                    max: getu(c, "max") as usize,
                    resend: getu(c, "resend"),
                })
                .collect()
        })
        .unwrap_or_default()
}

fn to_cfg(ch: &[Chan]) -> Vec<ChannelConfig> {
    ch.iter()
        .map(|c| ChannelConfig {
            channel_id: c.id,
            max_memory_usage_bytes: c.max,
            send_type: match c.kind.as_str() {
                "U" => SendType::Unreliable,
                "RO" => SendType::ReliableOrdered {
                    resend_time: Duration::from_millis(c.resend),
                },
                _ => SendType::ReliableUnordered {
                    resend_time: Duration::from_millis(c.resend),
                },
            },
        })
        .collect()
}

pub fn reason_str(r: Option<DisconnectReason>) -> String {
    match r {
        None => "None".into(),
        Some(DisconnectReason::Transport) => "Transport".into(),
        Some(DisconnectReason::DisconnectedByClient) => "DisconnectedByClient".into(),
        Some(DisconnectReason::DisconnectedByServer) => "DisconnectedByServer".into(),
        Some(DisconnectReason::PacketSerialization(_)) => "PacketSerialization".into(),
        Some(DisconnectReason::PacketDeserialization(_)) => "PacketDeserialization".into(),
        Some(DisconnectReason::ReceivedInvalidChannelId(_)) => "InvalidChannel".into(),
        Some(DisconnectReason::SendChannelError { error, .. }) => match error {
            renet::ChannelError::ReliableChannelMaxMemoryReached => "SendMem".into(),
            renet::ChannelError::InvalidSliceMessage => "SendSlice".into(),
        },
        Some(DisconnectReason::ReceiveChannelError { error, .. }) => match error {
            renet::ChannelError::ReliableChannelMaxMemoryReached => "RecvMem".into(),
            renet::ChannelError::InvalidSliceMessage => "RecvSlice".into(),
        },
    }
}

fn reason_ch(r: Option<DisconnectReason>) -> i64 {
    match r {
        Some(DisconnectReason::SendChannelError { channel_id, .. }) | Some(DisconnectReason::ReceiveChannelError { channel_id, .. }) => {
            channel_id as i64
        }
        Some(DisconnectReason::ReceivedInvalidChannelId(c)) => c as i64,
        _ => -1,
    }
}

impl World {
    pub fn new(cfg: &Value) -> World {
        let sc = chans_from(&cfg["sc"]);
        let cs = chans_from(&cfg["cs"]);
        let budget = getu(cfg, "budget");
        let config = ConnectionConfig {
            available_bytes_per_tick: budget,
            server_channels_config: to_cfg(&sc),
            client_channels_config: to_cfg(&cs),
        };
        let seqbase = getu(cfg, "seqbase");
        let midbase = getu(cfg, "midbase");
        let mut server = RenetServer::new(config.clone());
        let mut clients = BTreeMap::new();
        let manual = getb(cfg, "manual");
        if let Some(conns) = cfg["conns"].as_array() {
            for c in conns {
                let id = c.as_u64().unwrap_or(0);
                if !manual {
                    server.add_connection(id);
                    let mut cl = RenetClient::new(config.clone());
                    cl.set_connected();
                    if seqbase > 0 || midbase > 0 {
                        cl.verif_set_counters(seqbase, midbase);
                        if let Some(sc) = server.verif_connection_mut(id) {
                            sc.verif_set_counters(seqbase, midbase);
                        }
                    }
                    clients.insert(id, cl);
                } else {
                    // manual mode: the client object exists (Connecting), the server side is added by the schedule
                    clients.insert(id, RenetClient::new(config.clone()));
                }
            }
            if !manual {
                while server.get_event().is_some() {}
            }
        }
        World {
            server,
            clients,
            sc,
            cs,
            seqbase,
            midbase,
            intern: HashMap::new(),
            frags: HashMap::new(),
            bodies: HashMap::new(),
            slicemap: HashMap::new(),
            flushes: HashMap::new(),
            inflight: HashMap::new(),
            tclock: HashMap::new(),
            sclock: 0,
            dead: false,
        }
    }

    fn send_chans(&self, side: char) -> &Vec<Chan> {
        if side == 'S' {
            &self.sc
        } else {
            &self.cs
        }
    }
    fn recv_chans(&self, side: char) -> &Vec<Chan> {
        if side == 'S' {
            &self.cs
        } else {
            &self.sc
        }
    }

    fn ep(&self, conn: u64, side: char) -> Option<&RenetClient> {
        if side == 'S' {
            self.server.verif_connection(conn)
        } else {
            self.clients.get(&conn)
        }
    }

    /// Projection of the observable state of one endpoint.
    pub fn proj(&self, conn: u64, side: char) -> Value {
        let sch = self.send_chans(side);
        let rch = self.recv_chans(side);
        match self.ep(conn, side) {
            None => json!({"status":"Gone","reason":"None","rch":-1,
                "avail": sch.iter().map(|_| 0).collect::<Vec<i64>>(),
                "rmem": rch.iter().map(|_| 0).collect::<Vec<i64>>(),
                "unacked": sch.iter().map(|_| Vec::<i64>::new()).collect::<Vec<_>>()}),
            Some(c) => {
                let r = guarded(|| {
                    let status = if c.is_connected() {
                        "Connected"
                    } else if c.is_connecting() {
                        "Connecting"
                    } else {
                        "Disc"
                    };
                    let avail: Vec<i64> = sch.iter().map(|ch| c.channel_available_memory(ch.id) as i64).map(clampi).collect();
                    let rmem: Vec<i64> = rch
                        .iter()
                        .map(|ch| c.verif_receive_memory(ch.id).map(|x| x as i64).unwrap_or(-1))
                        .map(clampi)
                        .collect();
                    let unacked: Vec<Vec<i64>> = sch
                        .iter()
                        .map(|ch| {
                            c.verif_unacked_ids(ch.id)
                                .unwrap_or_default()
                                .into_iter()
                                .map(|m| rel(m, self.midbase))
                                .collect()
                        })
                        .collect();
                    json!({"status":status,"reason":reason_str(c.disconnect_reason()),"rch":reason_ch(c.disconnect_reason()),
                        "avail":avail,"rmem":rmem,"unacked":unacked})
                });
                match r {
                    Ok(v) => v,
                    // available_memory() itself can underflow when accounting is broken
                    Err(_) => json!({"status":"Panic","reason":"None","rch":-1,
                        "avail": sch.iter().map(|_| -1).collect::<Vec<i64>>(),
                        "rmem": rch.iter().map(|_| -1).collect::<Vec<i64>>(),
                        "unacked": sch.iter().map(|_| Vec::<i64>::new()).collect::<Vec<_>>()}),
                }
            }
        }
    }

    fn cid_of(&self, b: &[u8]) -> i64 {
        *self.intern.get(b).unwrap_or(&-1)
    }

    fn register(&mut self, tag: u64, bytes: &[u8]) -> i64 {
        let cid = *self.intern.entry(bytes.to_vec()).or_insert(tag as i64);
        if bytes.len() > SLICE_SIZE {
            self.bodies.entry(cid).or_insert_with(|| bytes.to_vec());
            let n = bytes.len().div_ceil(SLICE_SIZE);
            for idx in 0..n {
                let s = idx * SLICE_SIZE;
                let e = ((idx + 1) * SLICE_SIZE).min(bytes.len());
                self.frags.entry((n, idx, bytes[s..e].to_vec())).or_insert(cid);
            }
        }
        cid
    }

    /// Abstract description of a datagram, using the crate's own decoder.
    pub fn describe(&mut self, b: &[u8]) -> Value {
        self.describe_ctx(b, None)
    }

    /// `ctx` = (connection, sending side) for packets produced by an endpoint: slices are then attributed to the
    /// message whose first slice was seen under the same (channel, message id), and checked byte for byte.
    pub fn describe_ctx(&mut self, b: &[u8], ctx: Option<(u64, char)>) -> Value {
        let nosl = json!({"mid":0,"idx":0,"n":0,"len":0,"mcid":-1});
        let parsed = guarded(|| {
            let mut o = octets::Octets::with_slice(b);
            Packet::from_bytes(&mut o)
        });
        let p = match parsed {
            Ok(Ok(p)) => p,
            Ok(Err(_)) => return json!({"seq":0,"kind":"BAD","ch":-1,"bytes":b.len(),"msgs":[],"sl":nosl,"ranges":[],"pay":0}),
            Err(_) => return json!({"seq":0,"kind":"PANIC","ch":-1,"bytes":b.len(),"msgs":[],"sl":nosl,"ranges":[],"pay":0}),
        };
        let seq = rel(p.sequence(), self.seqbase);
        let (pch, prel) = match &p {
            Packet::ReliableSlice { channel_id, .. } => (*channel_id, true),
            Packet::UnreliableSlice { channel_id, .. } => (*channel_id, false),
            _ => (0, false),
        };
        let mut slice_desc = |s: &Slice| {
            let by_content = *self
                .frags
                .get(&(s.num_slices, s.slice_index, s.payload.to_vec()))
                .unwrap_or(&-1);
            let mut mcid = by_content;
            if let Some((conn, side)) = ctx {
                let key = (conn, side, pch, prel, s.message_id);
                if s.slice_index == 0 && by_content >= 0 {
                    self.slicemap.insert(key, by_content);
                }
                if let Some(&m) = self.slicemap.get(&key) {
                    // exact check: is this payload fragment `slice_index` of message m ?
                    let ok = self.bodies.get(&m).map_or(false, |body| {
                        let n = body.len().div_ceil(SLICE_SIZE);
                        let st = s.slice_index.saturating_mul(SLICE_SIZE);
                        let en = (st + SLICE_SIZE).min(body.len());
                        n == s.num_slices && st < body.len() && body[st..en] == s.payload[..]
                    });
                    mcid = if ok { m } else { -1 };
                }
            }
            json!({"mid":rel(s.message_id,self.midbase),"idx":small(s.slice_index as u64),"n":small(s.num_slices as u64),
                   "len":s.payload.len(),"mcid":mcid})
        };
        match &p {
            Packet::SmallReliable { channel_id, messages, .. } => {
                let msgs: Vec<Value> = messages
                    .iter()
                    .map(|(id, m)| json!({"mid":rel(*id,self.midbase),"cid":self.cid_of(m),"len":m.len()}))
                    .collect();
                let pay: usize = messages.iter().map(|(_, m)| m.len()).sum();
                json!({"seq":seq,"kind":"SR","ch":*channel_id,"bytes":b.len(),"msgs":msgs,"sl":nosl,"ranges":[],"pay":pay})
            }
            Packet::SmallUnreliable { channel_id, messages, .. } => {
                let msgs: Vec<Value> = messages
                    .iter()
                    .map(|m| json!({"mid":-1,"cid":self.cid_of(m),"len":m.len()}))
                    .collect();
                let pay: usize = messages.iter().map(|m| m.len()).sum();
                json!({"seq":seq,"kind":"SU","ch":*channel_id,"bytes":b.len(),"msgs":msgs,"sl":nosl,"ranges":[],"pay":pay})
            }
            Packet::ReliableSlice { channel_id, slice, .. } => {
                json!({"seq":seq,"kind":"RS","ch":*channel_id,"bytes":b.len(),"msgs":[],"sl":slice_desc(slice),"ranges":[],"pay":slice.payload.len()})
            }
            Packet::UnreliableSlice { channel_id, slice, .. } => {
                json!({"seq":seq,"kind":"US","ch":*channel_id,"bytes":b.len(),"msgs":[],"sl":slice_desc(slice),"ranges":[],"pay":slice.payload.len()})
            }
            Packet::Ack { ack_ranges, .. } => {
                let ranges: Vec<Value> = ack_ranges
                    .iter()
                    .map(|r| json!([rel(r.start, self.seqbase), rel(r.end, self.seqbase)]))
                    .collect();
                json!({"seq":seq,"kind":"ACK","ch":-1,"bytes":b.len(),"msgs":[],"sl":nosl,"ranges":ranges,"pay":0})
            }
        }
    }
}

fn clampi(v: i64) -> i64 {
    if v > BIG {
        BIG
    } else {
        v
    }
}

pub struct Runner<W: Write> {
    pub out: W,
    pub run: i64,
    pub i: i64,
    pub events: u64,
    pub panics: u64,
    pub skipped: u64,
    // extra fields (shape / context labels of a hostile input) merged into the next emitted event
    pub extra: Option<Value>,
}

impl<W: Write> Runner<W> {
    fn emit(&mut self, mut v: Value) {
        self.i += 1;
        self.events += 1;
        v["run"] = json!(self.run);
        v["i"] = json!(self.i);
        if let Some(x) = self.extra.take() {
            if let Some(m) = x.as_object() {
                for (k, val) in m {
                    v[k.as_str()] = val.clone();
                }
            }
        }
        if v.get("panic").is_none() {
            v["panic"] = json!(false);
        }
        writeln!(self.out, "{}", v).unwrap();
    }

    pub fn run_schedule(&mut self, sched: &Value) {
        self.run += 1;
        self.i = 0;
        let cfg = &sched["cfg"];
        let mut w = World::new(cfg);
        self.emit(json!({"ev":"reset","id":sched["id"],"cfg":cfg}));
        let empty = vec![];
        let steps = sched["steps"].as_array().unwrap_or(&empty);
        for st in steps {
            if w.dead {
                break;
            }
            self.step(&mut w, st);
        }
        self.emit(json!({"ev":"end"}));
    }

    fn side_of(st: &Value, key: &str) -> char {
        gets(st, key).chars().next().unwrap_or('C')
    }

    fn step(&mut self, w: &mut World, st: &Value) {
        let a = gets(st, "a").to_string();
        let conn = getu(st, "conn");
        match a.as_str() {
            "send" => {
                let side = Self::side_of(st, "side");
                self.do_send(w, conn, side, getu(st, "ch") as u8, getu(st, "tag"), getu(st, "len") as usize);
            }
            "bcast" => {
                let ch = getu(st, "ch") as u8;
                let tag = getu(st, "tag");
                let len = getu(st, "len") as usize;
                let except = getu(st, "except");
                let bytes = content(tag, len);
                let cid = w.register(tag, &bytes);
                // every connection in the table that is not disconnected is sent the message
                let targets: Vec<u64> = w
                    .clients
                    .keys()
                    .copied()
                    .filter(|c| w.server.verif_connection(*c).map_or(false, |x| !x.is_disconnected()))
                    .collect();
                let r = guarded(|| {
                    if except > 0 {
                        w.server.broadcast_message_except(except, ch, Bytes::from(bytes.clone()))
                    } else {
                        w.server.broadcast_message(ch, Bytes::from(bytes.clone()))
                    }
                });
                let mut t: Vec<u64> = targets;
                t.sort();
                self.emit(json!({"ev":"bcast","ch":ch,"cid":cid,"len":len,"except":except,"targets":t,"panic":r.is_err()}));
                if r.is_err() {
                    self.panics += 1;
                    w.dead = true;
                }
            }
            "recv" => {
                let side = Self::side_of(st, "side");
                self.do_recv(w, conn, side, getu(st, "ch") as u8);
            }
            "update" => {
                let side = Self::side_of(st, "side");
                self.do_update(w, conn, side, getu(st, "dt"));
            }
            "flush" => {
                let side = Self::side_of(st, "side");
                self.do_flush(w, conn, side);
            }
            "deliver" => {
                let to = Self::side_of(st, "to");
                let from = if to == 'S' { 'C' } else { 'S' };
                let keep = getb(st, "keep");
                let key = (conn, from);
                let (fl, ix) = if st.get("fl").is_some() {
                    let r = (getu(st, "fl") as usize, getu(st, "ix") as usize);
                    // a packet addressed by (flush, index) stops being "in flight" once delivered
                    let inf = w.inflight.entry(key).or_default();
                    if let Some(pos) = inf.iter().position(|x| *x == r) {
                        inf.remove(pos);
                    }
                    r
                } else {
                    let inf = w.inflight.entry(key).or_default();
                    if inf.is_empty() {
                        self.skipped += 1;
                        self.emit(json!({"ev":"skip","why":"no packet in flight","conn":conn}));
                        return;
                    }
                    let k = (getu(st, "sel") as usize) % inf.len();
                    let r = inf[k];
                    if !keep {
                        inf.remove(k);
                    }
                    r
                };
                let pk = w.flushes.get(&key).and_then(|f| f.get(fl.wrapping_sub(1))).and_then(|f| f.get(ix.wrapping_sub(1))).cloned();
                match pk {
                    None => {
                        self.skipped += 1;
                        self.emit(json!({"ev":"skip","why":"no such packet","conn":conn,"fl":fl,"ix":ix}));
                    }
                    Some(pk) => {
                        if let Some(p) = w.flushes.get_mut(&key).and_then(|f| f.get_mut(fl - 1)).and_then(|f| f.get_mut(ix - 1)) {
                            p.delivered += 1;
                        }
                        self.do_deliver(w, conn, to, &pk.bytes, pk.desc.clone(), "genuine", fl, ix, pk.delivered);
                    }
                }
            }
            "drop" => {
                let to = Self::side_of(st, "to");
                let from = if to == 'S' { 'C' } else { 'S' };
                let inf = w.inflight.entry((conn, from)).or_default();
                if !inf.is_empty() {
                    let k = (getu(st, "sel") as usize) % inf.len();
                    inf.remove(k);
                }
            }
            "hostile" => {
                let to = Self::side_of(st, "to");
                let bytes = unhex(gets(st, "hex"));
                let desc = w.describe(&bytes);
                self.extra = Some(json!({"shape": gets(st, "shape"), "ctx": gets(st, "ctx"), "hexlen": bytes.len()}));
                self.do_deliver(w, conn, to, &bytes, desc, "hostile", 0, 0, 0);
            }
            "api" => {
                let side = Self::side_of(st, "side");
                let call = gets(st, "call").to_string();
                let st0 = w.proj(conn, side);
                let r = guarded(|| {
                    if side == 'C' {
                        if let Some(c) = w.clients.get_mut(&conn) {
                            match call.as_str() {
                                "set_connected" => c.set_connected(),
                                "set_connecting" => c.set_connecting(),
                                "disconnect" => c.disconnect(),
                                "disconnect_due_to_transport" => c.disconnect_due_to_transport(),
                                _ => {}
                            }
                        }
                    } else {
                        match call.as_str() {
                            "disconnect" => w.server.disconnect(conn),
                            "new_local_client" => {
                                let c = w.server.new_local_client(conn);
                                w.clients.insert(conn, c);
                                // a new client object: its clock starts again
                                w.tclock.insert((conn, 'C'), 0);
                            }
                            "disconnect_local_client" => {
                                if let Some(mut c) = w.clients.remove(&conn) {
                                    w.server.disconnect_local_client(conn, &mut c);
                                    w.clients.insert(conn, c);
                                }
                            }
                            "process_local_client" => {
                                if let Some(mut c) = w.clients.remove(&conn) {
                                    let _ = w.server.process_local_client(conn, &mut c);
                                    w.clients.insert(conn, c);
                                }
                            }
                            "add_connection" => w.server.add_connection(conn),
                            "remove_connection" => w.server.remove_connection(conn),
                            "disconnect_all" => w.server.disconnect_all(),
                            "set_connected" => {
                                if let Some(c) = w.server.verif_connection_mut(conn) {
                                    c.set_connected()
                                }
                            }
                            "set_connecting" => {
                                if let Some(c) = w.server.verif_connection_mut(conn) {
                                    c.set_connecting()
                                }
                            }
                            "disconnect_due_to_transport" => {
                                if let Some(c) = w.server.verif_connection_mut(conn) {
                                    c.disconnect_due_to_transport()
                                }
                            }
                            _ => {}
                        }
                    }
                });
                let st1 = w.proj(conn, side);
                // the local-client calls of the server act on the client object too: log its projection after the call
                let cst1 = if side == 'S' && call.ends_with("local_client") && w.clients.contains_key(&conn) { w.proj(conn, 'C') } else { Value::Null };
                if cst1.is_null() {
                    self.emit(json!({"ev":"api","conn":conn,"side":side.to_string(),"call":call,"st0":st0,"st1":st1,"panic":r.is_err()}));
                } else {
                    self.emit(json!({"ev":"api","conn":conn,"side":side.to_string(),"call":call,"st0":st0,"st1":st1,"cst1":cst1,"panic":r.is_err()}));
                }
                if r.is_err() {
                    self.panics += 1;
                    w.dead = true;
                }
            }
            "get_event" => {
                let r = guarded(|| w.server.get_event());
                let res = match &r {
                    Ok(Some(ServerEvent::ClientConnected { client_id })) => json!({"some":true,"type":"Connected","id":*client_id,"reason":"None"}),
                    Ok(Some(ServerEvent::ClientDisconnected { client_id, reason })) => {
                        json!({"some":true,"type":"Disconnected","id":*client_id,"reason":reason_str(Some(*reason))})
                    }
                    _ => json!({"some":false,"type":"None","id":0,"reason":"None"}),
                };
                let mut ids = w.server.clients_id();
                ids.sort();
                self.emit(json!({"ev":"get_event","res":res,"ids":ids,"panic":r.is_err()}));
            }
            "heal" => {
                if getb(st, "lose") {
                    // everything still in flight is lost for good
                    for (k, v) in w.inflight.iter_mut() {
                        if conn == 0 || k.0 == conn {
                            v.clear();
                        }
                    }
                }
                self.emit(json!({"ev":"heal","conn":conn,"bound":geti(st,"bound"),"lose":getb(st,"lose")}));
            }
            "round" => {
                let n = getu(st, "n").max(1);
                let dt = getu(st, "dt");
                for _ in 0..n {
                    if w.dead {
                        break;
                    }
                    self.round(w, conn, dt);
                }
            }
            "rt_renet" => {
                // build a packet value, serialize it with the crate's encoder, decode it back, compare
                let num = |v: &Value, k: &str| getu(v, k);
                let kind = gets(st, "kind").to_string();
                let seq = num(st, "seq");
                let ch = num(st, "ch") as u8;
                let mk_slice = |x: &Value| Slice {
                    message_id: num(x, "mid"),
                    slice_index: num(x, "idx") as usize,
                    num_slices: num(x, "n") as usize,
                    payload: Bytes::from(vec![0x5Au8; num(x, "len") as usize]),
                };
                let p = match kind.as_str() {
                    "SR" => Packet::SmallReliable {
                        sequence: seq,
                        channel_id: ch,
                        messages: st["msgs"].as_array().map(|a| a.iter().map(|m| (num(m, "mid"), Bytes::from(vec![0xA5u8; num(m, "len") as usize]))).collect()).unwrap_or_default(),
                    },
                    "SU" => Packet::SmallUnreliable {
                        sequence: seq,
                        channel_id: ch,
                        messages: st["msgs"].as_array().map(|a| a.iter().map(|m| Bytes::from(vec![0xA5u8; num(m, "len") as usize])).collect()).unwrap_or_default(),
                    },
                    "RS" => Packet::ReliableSlice { sequence: seq, channel_id: ch, slice: mk_slice(&st["sl"]) },
                    "US" => Packet::UnreliableSlice { sequence: seq, channel_id: ch, slice: mk_slice(&st["sl"]) },
                    _ => Packet::Ack {
                        sequence: seq,
                        ack_ranges: st["ranges"].as_array().map(|a| a.iter().map(|r| num(&json!({"a": r[0]}), "a")..num(&json!({"a": r[1]}), "a")).collect()).unwrap_or_default(),
                    },
                };
                let r = guarded(|| {
                    let mut buf = [0u8; 1400];
                    let mut o = octets::OctetsMut::with_slice(&mut buf);
                    match p.to_bytes(&mut o) {
                        Err(_) => ("enc_err", 0usize, false),
                        Ok(len) => {
                            let mut d = octets::Octets::with_slice(&buf[..len]);
                            match Packet::from_bytes(&mut d) {
                                Ok(q) => ("ok", len, q == p),
                                Err(_) => ("dec_err", len, false),
                            }
                        }
                    }
                });
                let (res, len, ok) = r.clone().unwrap_or(("panic", 0, false));
                // a value that does not fit the 1400 byte buffer is not a wire value: not a round-trip failure
                self.emit(json!({"ev":"rt","layer":"renet","kind":kind,"res":res,"len":len,"ok":ok || res == "enc_err","shape":gets(st,"shape"),"panic":r.is_err()}));
            }
            "re_renet" => {
                let b = unhex(gets(st, "hex"));
                let r = guarded(|| {
                    let mut d = octets::Octets::with_slice(&b);
                    match Packet::from_bytes(&mut d) {
                        Err(_) => (false, true),
                        Ok(p) => {
                            let mut buf = [0u8; 2800];
                            let mut o = octets::OctetsMut::with_slice(&mut buf);
                            match p.to_bytes(&mut o) {
                                Err(_) => (true, false),
                                Ok(len) => {
                                    let mut d2 = octets::Octets::with_slice(&buf[..len]);
                                    (true, Packet::from_bytes(&mut d2).map_or(false, |q| q == p))
                                }
                            }
                        }
                    }
                });
                let (dec, ok) = r.clone().unwrap_or((false, false));
                self.emit(json!({"ev":"re","layer":"renet","decodable":dec,"ok":ok,"len":b.len(),"shape":gets(st,"shape"),"panic":r.is_err()}));
            }
            "roundeach" => {
                // one good round per connection, the server side advanced through the per-connection hook
                let dt = getu(st, "dt");
                let ids: Vec<u64> = w.clients.keys().copied().collect();
                for c in ids {
                    if w.dead {
                        break;
                    }
                    self.round_conn(w, c, dt);
                }
            }
            "drain" => {
                let side = Self::side_of(st, "side");
                self.drain(w, conn, side);
            }
            _ => {
                self.emit(json!({"ev":"skip","why":format!("unknown step {}", a)}));
            }
        }
    }

    fn conns_of(w: &World, conn: u64) -> Vec<u64> {
        if conn == 0 {
            w.clients.keys().copied().collect()
        } else {
            vec![conn]
        }
    }

    /// One good round: update both, flush both, deliver everything in flight in order, drain both.
    fn round(&mut self, w: &mut World, conn: u64, dt: u64) {
        let conns = Self::conns_of(w, conn);
        self.do_update(w, 0, 'S', dt);
        for &c in &conns {
            self.do_update(w, c, 'C', dt);
        }
        for &c in &conns {
            self.do_flush(w, c, 'S');
            self.do_flush(w, c, 'C');
        }
        for &c in &conns {
            for from in ['S', 'C'] {
                let to = if from == 'S' { 'C' } else { 'S' };
                let list: Vec<(usize, usize)> = std::mem::take(w.inflight.entry((c, from)).or_default());
                for (fl, ix) in list {
                    if w.dead {
                        return;
                    }
                    let pk = w.flushes[&(c, from)][fl - 1][ix - 1].clone();
                    w.flushes.get_mut(&(c, from)).unwrap()[fl - 1][ix - 1].delivered += 1;
                    self.do_deliver(w, c, to, &pk.bytes, pk.desc.clone(), "genuine", fl, ix, pk.delivered);
                }
            }
        }
        for &c in &conns {
            self.drain(w, c, 'S');
            self.drain(w, c, 'C');
        }
        self.emit(json!({"ev":"round_end","conn":conn}));
    }

    /// Good round of one connection; the server side connection is updated alone (hook), so that other
    /// connections keep their own clocks.
    fn round_conn(&mut self, w: &mut World, c: u64, dt: u64) {
        let st0 = w.proj(c, 'S');
        let r = guarded(|| {
            if let Some(x) = w.server.verif_connection_mut(c) {
                x.update(Duration::from_millis(dt));
            }
        });
        let t = {
            let e = w.tclock.entry((c, 'S')).or_insert(0);
            *e += dt;
            *e
        };
        let st1 = w.proj(c, 'S');
        self.emit(json!({"ev":"update","conn":c,"side":"S","dt":dt,"t":t,"st0":st0,"st1":st1,"panic":r.is_err()}));
        self.do_update(w, c, 'C', dt);
        self.do_flush(w, c, 'S');
        self.do_flush(w, c, 'C');
        for from in ['S', 'C'] {
            let to = if from == 'S' { 'C' } else { 'S' };
            let list: Vec<(usize, usize)> = std::mem::take(w.inflight.entry((c, from)).or_default());
            for (fl, ix) in list {
                if w.dead {
                    return;
                }
                let pk = w.flushes[&(c, from)][fl - 1][ix - 1].clone();
                w.flushes.get_mut(&(c, from)).unwrap()[fl - 1][ix - 1].delivered += 1;
                self.do_deliver(w, c, to, &pk.bytes, pk.desc.clone(), "genuine", fl, ix, pk.delivered);
            }
        }
        self.drain(w, c, 'S');
        self.drain(w, c, 'C');
        self.emit(json!({"ev":"round_end","conn":c}));
    }

    fn drain(&mut self, w: &mut World, conn: u64, side: char) {
        let chans: Vec<u8> = w.recv_chans(side).iter().map(|c| c.id).collect();
        for ch in chans {
            for _ in 0..100000 {
                if w.dead || !self.do_recv(w, conn, side, ch) {
                    break;
                }
            }
        }
    }

    fn dir_of_sender(side: char) -> &'static str {
        if side == 'S' {
            "sc"
        } else {
            "cs"
        }
    }

    fn do_send(&mut self, w: &mut World, conn: u64, side: char, ch: u8, tag: u64, len: usize) {
        let bytes = content(tag, len);
        let cid = w.register(tag, &bytes);
        let st0 = w.proj(conn, side);
        let r = guarded(|| {
            if side == 'S' {
                w.server.send_message(conn, ch, Bytes::from(bytes));
            } else if let Some(c) = w.clients.get_mut(&conn) {
                c.send_message(ch, Bytes::from(bytes));
            }
        });
        let st1 = w.proj(conn, side);
        self.emit(json!({"ev":"send","conn":conn,"side":side.to_string(),"dir":Self::dir_of_sender(side),"ch":ch,"cid":cid,"len":len,
            "st0":st0,"st1":st1,"panic":r.is_err()}));
        if r.is_err() {
            self.panics += 1;
            w.dead = true;
        }
    }

    /// Returns true if a message was obtained.
    fn do_recv(&mut self, w: &mut World, conn: u64, side: char, ch: u8) -> bool {
        let st0 = w.proj(conn, side);
        let r = guarded(|| {
            if side == 'S' {
                w.server.receive_message(conn, ch)
            } else {
                w.clients.get_mut(&conn).and_then(|c| c.receive_message(ch))
            }
        });
        let st1 = w.proj(conn, side);
        let dir = if side == 'S' { "cs" } else { "sc" };
        let (some, cid, len) = match &r {
            Ok(Some(b)) => (true, w.cid_of(b), b.len()),
            _ => (false, -1, 0),
        };
        self.emit(json!({"ev":"recv","conn":conn,"side":side.to_string(),"dir":dir,"ch":ch,"some":some,"cid":cid,"len":len,
            "st0":st0,"st1":st1,"panic":r.is_err()}));
        if r.is_err() {
            self.panics += 1;
            w.dead = true;
        }
        some
    }

    fn do_update(&mut self, w: &mut World, conn: u64, side: char, dt: u64) {
        let st0 = w.proj(conn, side);
        let r = guarded(|| {
            if side == 'S' {
                w.server.update(Duration::from_millis(dt));
            } else if let Some(c) = w.clients.get_mut(&conn) {
                c.update(Duration::from_millis(dt));
            }
        });
        let t = if side == 'S' {
            w.sclock += dt;
            w.sclock
        } else {
            let e = w.tclock.entry((conn, side)).or_insert(0);
            *e += dt;
            *e
        };
        let st1 = w.proj(conn, side);
        self.emit(json!({"ev":"update","conn":conn,"side":side.to_string(),"dt":dt,"t":t,"st0":st0,"st1":st1,"panic":r.is_err()}));
        if r.is_err() {
            self.panics += 1;
            w.dead = true;
        }
    }

    fn do_flush(&mut self, w: &mut World, conn: u64, side: char) {
        let st0 = w.proj(conn, side);
        let r = guarded(|| {
            if side == 'S' {
                w.server.get_packets_to_send(conn).ok()
            } else {
                w.clients.get_mut(&conn).map(|c| c.get_packets_to_send())
            }
        });
        let st1 = w.proj(conn, side);
        let t = if side == 'S' { w.sclock + *w.tclock.get(&(conn, 'S')).unwrap_or(&0) } else { *w.tclock.get(&(conn, side)).unwrap_or(&0) };
        let pkts: Vec<Vec<u8>> = match &r {
            Ok(Some(p)) => p.clone(),
            _ => vec![],
        };
        let descs: Vec<Value> = pkts.iter().map(|b| w.describe_ctx(b, Some((conn, side)))).collect();
        // C16: the ack packet of this flush denotes exactly the recorded pending ranges (compared on the raw 64-bit values)
        let pend: Vec<std::ops::Range<u64>> = w.ep(conn, side).map(|c| c.verif_pending_acks()).unwrap_or_default();
        let mut acked: Option<Vec<std::ops::Range<u64>>> = None;
        for b in pkts.iter() {
            let mut o = octets::Octets::with_slice(b);
            if let Ok(Packet::Ack { ack_ranges, .. }) = Packet::from_bytes(&mut o) {
                acked = Some(ack_ranges);
            }
        }
        let alive = w.ep(conn, side).map_or(false, |c| !c.is_disconnected());
        let pendok = !alive || match &acked {
            Some(r) => *r == pend,
            None => pend.is_empty(),
        };
        let fl = {
            let f = w.flushes.entry((conn, side)).or_default();
            f.push(
                pkts.iter()
                    .zip(descs.iter())
                    .map(|(b, d)| Pkt {
                        bytes: b.clone(),
                        desc: d.clone(),
                        delivered: 0,
                    })
                    .collect(),
            );
            f.len()
        };
        let inf = w.inflight.entry((conn, side)).or_default();
        for ix in 1..=pkts.len() {
            inf.push((fl, ix));
        }
        self.emit(json!({"ev":"flush","conn":conn,"side":side.to_string(),"dir":Self::dir_of_sender(side),"t":t,"fl":fl,"pk":descs,
            "st0":st0,"st1":st1,"pendok":pendok,"npend":pend.len(),"panic":r.is_err()}));
        if r.is_err() {
            self.panics += 1;
            w.dead = true;
        }
    }

    #[allow(clippy::too_many_arguments)]
    fn do_deliver(&mut self, w: &mut World, conn: u64, to: char, bytes: &[u8], desc: Value, label: &str, fl: usize, ix: usize, nth: u32) {
        let st0 = w.proj(conn, to);
        let r = guarded(|| {
            if to == 'S' {
                let _ = w.server.process_packet_from(bytes, conn);
            } else if let Some(c) = w.clients.get_mut(&conn) {
                c.process_packet(bytes);
            }
        });
        let st1 = w.proj(conn, to);
        // direction of the stream this packet belongs to
        let dir = if to == 'S' { "cs" } else { "sc" };
        let pmsg = r.as_ref().err().cloned().unwrap_or_default();
        self.emit(json!({"ev":"deliver","conn":conn,"side":to.to_string(),"dir":dir,"label":label,"fl":fl,"ix":ix,"nth":nth,"p":desc,
            "st0":st0,"st1":st1,"panic":r.is_err(),"pmsg":pmsg}));
        if r.is_err() {
            self.panics += 1;
            w.dead = true;
        }
    }
}
