//! Full stack world (C20): real NetcodeServerTransport / NetcodeClientTransport over loopback UDP sockets, an in-path
//! relay owned by the harness that applies the schedule's per-datagram decisions (pass / drop / duplicate / hold /
//! replay / corrupt), RenetServer + RenetClient on top.  Time is the `duration` argument of the transports' update.
use crate::util::*;
use bytes::Bytes;
use renet::{ChannelConfig, ConnectionConfig, RenetClient, RenetServer, SendType, ServerEvent};
use renet_netcode::{ClientAuthentication, ConnectToken, NetcodeClientTransport, NetcodeServerTransport, ServerAuthentication, ServerConfig};
use serde_json::{json, Value};
use std::collections::{BTreeMap, HashMap};
use std::io::Write;
use std::net::{SocketAddr, UdpSocket};
use std::time::Duration;

const KEY: [u8; 32] = *b"an example very very secret key.";
const PROTO: u64 = 7;

fn chans() -> Vec<ChannelConfig> {
    vec![
        ChannelConfig {
            channel_id: 0,
            max_memory_usage_bytes: 5_000_000,
            send_type: SendType::Unreliable,
        },
        ChannelConfig {
            channel_id: 1,
            max_memory_usage_bytes: 5_000_000,
            send_type: SendType::ReliableUnordered {
                resend_time: Duration::from_millis(200),
            },
        },
        ChannelConfig {
            channel_id: 2,
            max_memory_usage_bytes: 5_000_000,
            send_type: SendType::ReliableOrdered {
                resend_time: Duration::from_millis(200),
            },
        },
    ]
}

struct Cli {
    renet: RenetClient,
    transport: NetcodeClientTransport,
    addr: SocketAddr,   // the client's own socket address
    up: UdpSocket,      // relay -> server socket for this client
    held_up: Vec<Vec<u8>>,
    held_down: Vec<Vec<u8>>,
    stored_up: Vec<Vec<u8>>,
    stored_down: Vec<Vec<u8>>,
}

pub struct Stack {
    server: RenetServer,
    transport: NetcodeServerTransport,
    server_addr: SocketAddr,
    down: UdpSocket, // the address clients talk to (listed in their tokens)
    clients: BTreeMap<u64, Cli>,
    /// netcode client id of a harness client when it differs from its own number (cfg "alias": two clients holding tokens
    /// for ONE client id, from different addresses)
    alias: BTreeMap<u64, u64>,
    /// cfg "share_up": client -> the earlier client whose relay socket (= address at the server) it shares
    share: BTreeMap<u64, u64>,
    /// after step "takeover": datagrams arriving for the earlier client's address reach the restarted one
    route: BTreeMap<u64, u64>,
    intern: HashMap<Vec<u8>, i64>,
    stime: u64,
}

fn nb_socket() -> UdpSocket {
    let s = UdpSocket::bind("127.0.0.1:0").expect("bind");
    s.set_nonblocking(true).unwrap();
    s
}

fn drain(s: &UdpSocket) -> Vec<(Vec<u8>, SocketAddr)> {
    let mut out = vec![];
    let mut buf = [0u8; 2048];
    // loopback delivery is synchronous; a short bounded poll covers the rare case it is not
    for attempt in 0..3 {
        loop {
            match s.recv_from(&mut buf) {
                Ok((n, a)) => out.push((buf[..n].to_vec(), a)),
                Err(_) => break,
            }
        }
        if !out.is_empty() || attempt == 2 {
            break;
        }
        std::thread::sleep(Duration::from_micros(50));
    }
    out
}

impl Stack {
    fn new(cfg: &Value) -> Stack {
        let down = nb_socket();
        let server_socket = UdpSocket::bind("127.0.0.1:0").expect("bind");
        let server_addr = server_socket.local_addr().unwrap();
        let config = ConnectionConfig {
            available_bytes_per_tick: 60_000,
            server_channels_config: chans(),
            client_channels_config: chans(),
        };
        let sc = ServerConfig {
            current_time: Duration::ZERO,
            max_clients: getu(cfg, "max_clients").max(1) as usize,
            protocol_id: PROTO,
            public_addresses: vec![down.local_addr().unwrap()],
            authentication: ServerAuthentication::Secure { private_key: KEY },
        };
        let transport = NetcodeServerTransport::new(sc, server_socket).expect("server transport");
        let mut clients = BTreeMap::new();
        let mut alias = BTreeMap::new();
        if let Some(m) = cfg.get("alias").and_then(|a| a.as_object()) {
            for (k, v) in m {
                if let (Ok(k), Some(v)) = (k.parse::<u64>(), v.as_u64()) {
                    alias.insert(k, v);
                }
            }
        }
        // cfg "share_up": a client that shows up at the server under the ADDRESS of an earlier one (the same relay socket):
        // a client program restarted behind the same NAT binding, with a connect token of its own
        let mut share: BTreeMap<u64, u64> = BTreeMap::new();
        if let Some(m) = cfg.get("share_up").and_then(|a| a.as_object()) {
            for (k, v) in m {
                if let (Ok(k), Some(v)) = (k.parse::<u64>(), v.as_u64()) {
                    share.insert(k, v);
                }
            }
        }
        for c in cfg["clients"].as_array().cloned().unwrap_or_default() {
            let id = c.as_u64().unwrap_or(1);
            let netid = *alias.get(&id).unwrap_or(&id);
            let up = match share.get(&id).and_then(|o| clients.get(o)).and_then(|o: &Cli| o.up.try_clone().ok()) {
                Some(s) => s,
                None => nb_socket(),
            };
            let sock = UdpSocket::bind("127.0.0.1:0").expect("bind");
            let addr = sock.local_addr().unwrap();
            let token = ConnectToken::generate(Duration::ZERO, PROTO, 300, netid, geti(cfg, "timeout_s").max(1) as i32, vec![down.local_addr().unwrap()], None, &KEY)
                .expect("token");
            let t = NetcodeClientTransport::new(Duration::ZERO, ClientAuthentication::Secure { connect_token: token }, sock).expect("client transport");
            clients.insert(
                id,
                Cli {
                    renet: RenetClient::new(config.clone()),
                    transport: t,
                    addr,
                    up,
                    held_up: vec![],
                    held_down: vec![],
                    stored_up: vec![],
                    stored_down: vec![],
                },
            );
        }
        Stack {
            server: RenetServer::new(config),
            transport,
            server_addr,
            down,
            clients,
            alias,
            share,
            route: BTreeMap::new(),
            intern: HashMap::new(),
            stime: 0,
        }
    }

    fn netid(&self, c: u64) -> u64 {
        *self.alias.get(&c).unwrap_or(&c)
    }

    fn cstatus(&self, id: u64) -> Value {
        match self.clients.get(&id) {
            None => json!({"status":"Gone","reason":"None","nreason":"None"}),
            Some(c) => {
                let status = if c.renet.is_connected() {
                    "Connected"
                } else if c.renet.is_connecting() {
                    "Connecting"
                } else {
                    "Disc"
                };
                let nr = c.transport.disconnect_reason().map(|r| format!("{:?}", r)).unwrap_or_else(|| "None".into());
                json!({"status":status,"reason":crate::msg::reason_str(c.renet.disconnect_reason()),"nreason":nr})
            }
        }
    }

    fn sview(&mut self) -> Value {
        let mut ids = self.server.clients_id();
        ids.sort();
        let mut nids: Vec<u64> = self.clients.keys().map(|c| self.netid(*c)).filter(|id| self.transport.client_addr(*id).is_some()).collect();
        nids.sort();
        nids.dedup();
        // a netcode id must map to the upstream socket of a client that holds a token for that id
        let addr_ok = nids.iter().all(|id| {
            let a = self.transport.client_addr(*id);
            self.clients.iter().any(|(c, cl)| self.netid(*c) == *id && cl.up.local_addr().ok() == a)
        });
        let mut evs = vec![];
        while let Some(e) = self.server.get_event() {
            evs.push(match e {
                ServerEvent::ClientConnected { client_id } => json!({"type":"Connected","id":client_id,"reason":"None"}),
                ServerEvent::ClientDisconnected { client_id, reason } => {
                    json!({"type":"Disconnected","id":client_id,"reason":crate::msg::reason_str(Some(reason))})
                }
            });
        }
        json!({"ids":ids,"nids":nids,"ncount":self.transport.connected_clients(),"addr_ok":addr_ok,"evs":evs})
    }
}

pub struct StackRunner<W: Write> {
    pub out: W,
    pub run: i64,
    pub i: i64,
    pub events: u64,
    pub panics: u64,
    pub skipped: u64,
}

impl<W: Write> StackRunner<W> {
    fn emit(&mut self, mut v: Value) {
        self.i += 1;
        self.events += 1;
        v["run"] = json!(self.run);
        v["i"] = json!(self.i);
        if v.get("panic").is_none() {
            v["panic"] = json!(false);
        }
        writeln!(self.out, "{}", v).unwrap();
    }

    pub fn run_schedule(&mut self, sched: &Value) {
        self.run += 1;
        self.i = 0;
        let cfg = &sched["cfg"];
        let mut w = Stack::new(cfg);
        self.emit(json!({"ev":"reset","id":sched["id"],"cfg":cfg}));
        let empty = vec![];
        for st in sched["steps"].as_array().unwrap_or(&empty) {
            let r = guarded(|| self.step(&mut w, st));
            if r.is_err() {
                self.panics += 1;
                self.emit(json!({"ev":"panic","step":st,"panic":true}));
                break;
            }
        }
        self.emit(json!({"ev":"end"}));
    }

    /// Moves datagrams through the relay in one direction for one client, applying the decision list cyclically.
    fn relay(&mut self, w: &mut Stack, id: u64, dir: &str, ops: &[String]) {
        let server_addr = w.server_addr;
        // collect what is waiting on the relay's sockets
        let arrived: Vec<(Vec<u8>, SocketAddr)> = if dir == "up" { drain(&w.down) } else { vec![] };
        // upstream datagrams of every client arrive on the shared downstream socket: sort them to their clients
        if dir == "up" {
            for (b, from) in arrived {
                if let Some(c) = w.clients.values_mut().find(|c| c.addr == from) {
                    c.held_up.push(b);
                }
            }
        } else {
            let ids: Vec<u64> = w.clients.keys().copied().collect();
            for cid in ids {
                let got = drain(&w.clients[&cid].up);
                let target = *w.route.get(&cid).unwrap_or(&cid);
                let c = w.clients.get_mut(&target).unwrap();
                for (b, from) in got {
                    if from == server_addr {
                        c.held_down.push(b);
                    }
                }
            }
        }
        let down_addr = w.down.try_clone().unwrap();
        let c = match w.clients.get_mut(&id) {
            Some(c) => c,
            None => return,
        };
        let queue: Vec<Vec<u8>> = if dir == "up" { std::mem::take(&mut c.held_up) } else { std::mem::take(&mut c.held_down) };
        let mut applied = vec![];
        let mut passed = 0;
        for (k, b) in queue.into_iter().enumerate() {
            let op = if ops.is_empty() { "pass".to_string() } else { ops[k % ops.len()].clone() };
            let send = |bytes: &[u8], c: &Cli| {
                if dir == "up" {
                    let _ = c.up.send_to(bytes, server_addr);
                } else {
                    let _ = down_addr.send_to(bytes, c.addr);
                }
            };
            match op.as_str() {
                "drop" => {}
                "dup" => {
                    send(&b, c);
                    send(&b, c);
                    passed += 1;
                }
                "hold" => {
                    if dir == "up" {
                        c.held_up.push(b);
                    } else {
                        c.held_down.push(b);
                    }
                }
                "late" => {
                    // delayed to the next relay step, and a copy is kept so that it can be replayed after it got through
                    if dir == "up" {
                        c.stored_up.push(b.clone());
                        c.held_up.push(b);
                    } else {
                        c.stored_down.push(b.clone());
                        c.held_down.push(b);
                    }
                }
                "store" => {
                    // passes, and a copy is kept for a later replay
                    send(&b, c);
                    passed += 1;
                    if dir == "up" {
                        c.stored_up.push(b);
                    } else {
                        c.stored_down.push(b);
                    }
                }
                x if x.starts_with("flip") => {
                    let bit: usize = x[4..].parse().unwrap_or(0);
                    let mut m = b.clone();
                    if !m.is_empty() {
                        let pos = (bit / 8) % m.len();
                        m[pos] ^= 1 << (bit % 8);
                    }
                    send(&m, c);
                }
                _ => {
                    send(&b, c);
                    passed += 1;
                }
            }
            applied.push(op);
        }
        self.emit(json!({"ev":"relay","c":id,"dir":dir,"ops":applied,"passed":passed}));
    }

    fn step(&mut self, w: &mut Stack, st: &Value) {
        let a = gets(st, "a").to_string();
        let id = getu(st, "c");
        match a.as_str() {
            "sstep" => {
                let dt = getu(st, "dt");
                w.stime += dt;
                let e1 = w.transport.update(Duration::from_millis(dt), &mut w.server).is_err();
                w.server.update(Duration::from_millis(dt));
                w.transport.send_packets(&mut w.server);
                let v = w.sview();
                self.emit(json!({"ev":"sstep","dt":dt,"t":w.stime,"view":v,"err":e1}));
            }
            "cstep" => {
                let dt = getu(st, "dt");
                if let Some(c) = w.clients.get_mut(&id) {
                    c.renet.update(Duration::from_millis(dt));
                    let e1 = c.transport.update(Duration::from_millis(dt), &mut c.renet).is_err();
                    let e2 = c.transport.send_packets(&mut c.renet).is_err();
                    let cs = w.cstatus(id);
                    self.emit(json!({"ev":"cstep","c":id,"dt":dt,"cs":cs,"err":e1 || e2}));
                }
            }
            "relay" => {
                let ops: Vec<String> = st["ops"].as_array().map(|a| a.iter().filter_map(|x| x.as_str().map(|s| s.to_string())).collect()).unwrap_or_default();
                let dir = gets(st, "dir").to_string();
                self.relay(w, id, &dir, &ops);
            }
            "inject" => {
                // replays stored datagrams (recorded with the op "store")
                let dir = gets(st, "dir");
                let server_addr = w.server_addr;
                if let Some(c) = w.clients.get(&id) {
                    let list = if dir == "up" { &c.stored_up } else { &c.stored_down };
                    let n = list.len();
                    for k in 0..(getu(st, "n") as usize).min(n) {
                        let b = &list[(getu(st, "from") as usize + k) % n];
                        if dir == "up" {
                            let _ = c.up.send_to(b, server_addr);
                        } else {
                            let _ = w.down.send_to(b, c.addr);
                        }
                    }
                    self.emit(json!({"ev":"inject","c":id,"dir":dir,"n":getu(st,"n").min(n as u64)}));
                }
            }
            "send" => {
                let tag = getu(st, "tag");
                let len = getu(st, "len") as usize;
                let ch = getu(st, "ch") as u8;
                let bytes = content(tag, len);
                let cid = *w.intern.entry(bytes.clone()).or_insert(tag as i64);
                let dir = gets(st, "dir").to_string();
                // a message counts as submitted only if the sending endpoint exists and is not disconnected
                let ok = if dir == "sc" {
                    let ok = w.server.is_connected(w.netid(id));
                    w.server.send_message(w.netid(id), ch, Bytes::from(bytes));
                    ok
                } else if let Some(c) = w.clients.get_mut(&id) {
                    let ok = !c.renet.is_disconnected();
                    c.renet.send_message(ch, Bytes::from(bytes));
                    ok
                } else {
                    false
                };
                self.emit(json!({"ev":"send","c":id,"dir":dir,"ch":ch,"cid":cid,"len":len,"ok":ok}));
            }
            "recv" => {
                // drains every channel of one side of one connection
                let dir = gets(st, "dir").to_string();
                for ch in [0u8, 1, 2] {
                    loop {
                        let m = if dir == "cs" {
                            w.server.receive_message(w.netid(id), ch)
                        } else {
                            w.clients.get_mut(&id).and_then(|c| c.renet.receive_message(ch))
                        };
                        match m {
                            None => break,
                            Some(b) => {
                                let cid = *w.intern.get(&b.to_vec()).unwrap_or(&-1);
                                self.emit(json!({"ev":"recv","c":id,"dir":dir,"ch":ch,"cid":cid,"len":b.len()}));
                            }
                        }
                    }
                }
            }
            "disc" => {
                let who = gets(st, "who").to_string();
                // a server side disconnect of an id the message layer does not list is a no-op: there is no session to end
                let ok = who != "server" || w.server.is_connected(w.netid(id));
                match who.as_str() {
                    "server" => w.server.disconnect(w.netid(id)),
                    "client" => {
                        if let Some(c) = w.clients.get_mut(&id) {
                            c.renet.disconnect()
                        }
                    }
                    "client_transport" => {
                        if let Some(c) = w.clients.get_mut(&id) {
                            c.transport.disconnect()
                        }
                    }
                    _ => {}
                }
                self.emit(json!({"ev":"disc","c":id,"who":who,"ok":ok}));
            }
            "round" => {
                // good round(s): everything passes, both sides step, applications drain
                let dt = getu(st, "dt");
                let ids: Vec<u64> = w.clients.keys().copied().collect();
                for _ in 0..getu(st, "n").max(1) {
                    for &c in &ids {
                        self.step(w, &json!({"a":"cstep","c":c,"dt":dt}));
                        self.relay(w, c, "up", &[]);
                    }
                    self.step(w, &json!({"a":"sstep","dt":dt}));
                    for &c in &ids {
                        self.relay(w, c, "down", &[]);
                    }
                    for &c in &ids {
                        self.step(w, &json!({"a":"recv","c":c,"dir":"cs"}));
                        self.step(w, &json!({"a":"recv","c":c,"dir":"sc"}));
                    }
                    let cs: Vec<Value> = ids.iter().map(|c| json!({"c":c,"cs":w.cstatus(*c)})).collect();
                    self.emit(json!({"ev":"round_end","cs":cs}));
                }
            }
            "takeover" => {
                // the program behind this address was restarted: from now on the address belongs to client `c`
                if let Some(&old) = w.share.get(&id) {
                    w.route.insert(old, id);
                }
                self.emit(json!({"ev":"takeover","c":id}));
            }
            "mark" => {
                let mut v = st.clone();
                v["ev"] = json!(gets(st, "mark"));
                v.as_object_mut().unwrap().remove("a");
                v.as_object_mut().unwrap().remove("mark");
                self.emit(v);
            }
            _ => {
                self.skipped += 1;
                self.emit(json!({"ev":"skip","why":format!("unknown step {}", a)}));
            }
        }
    }
}
