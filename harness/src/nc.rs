//! Netcode world: one NetcodeServer, named NetcodeClients, named connect tokens, an attacker toolbox.
//! Executes schedules against the real renetcode code and records one ndjson event per public call.
use crate::util::*;
use renetcode::verif::{ChallengeToken, Packet};
use renetcode::{
    ClientAuthentication, ConnectToken, DisconnectReason, NetcodeClient, NetcodeServer, ServerAuthentication, ServerConfig, ServerResult,
};
use serde_json::{json, Value};
use std::collections::{BTreeMap, HashMap};
use std::io::Write;
use std::net::SocketAddr;
use std::time::Duration;

const KEY_K: [u8; 32] = *b"an example very very secret key.";
const KEY_F: [u8; 32] = *b"another, foreign, 32 bytes key!!";
const PROTO_P: u64 = 7;
const PROTO_Q: u64 = 8;

fn srv_addr(i: u64) -> SocketAddr {
    // 51..: the IP address of public address (i - 50) with ANOTHER port (another server instance on the same machine)
    if i > 50 && i < 100 {
        return format!("127.0.0.{}:5001", i - 50).parse().unwrap();
    }
    format!("127.0.0.{}:5000", i).parse().unwrap()
}
fn cli_addr(i: u64) -> SocketAddr {
    format!("10.0.0.{}:{}", i, 4000 + i).parse().unwrap()
}
fn addr_idx(a: SocketAddr) -> i64 {
    match a {
        SocketAddr::V4(v) => {
            let o = v.ip().octets();
            if o[0] == 127 {
                // port 5001: the same machine as public address o[3], another server instance (host numbers 51..)
                100 + o[3] as i64 + if v.port() == 5001 { 50 } else { 0 }
            } else {
                o[3] as i64
            }
        }
        _ => -1,
    }
}

fn user_data(tag: u64) -> [u8; 256] {
    let mut u = [(tag & 0xFF) as u8; 256];
    u[..8].copy_from_slice(&tag.to_le_bytes());
    u
}
fn ud_tag(u: &[u8; 256]) -> i64 {
    let mut t = [0u8; 8];
    t.copy_from_slice(&u[..8]);
    let tag = u64::from_le_bytes(t);
    if u[8..].iter().all(|b| *b == (tag & 0xFF) as u8) && tag < (1 << 30) {
        tag as i64
    } else {
        -1
    }
}

pub struct Tok {
    pub token: ConnectToken,
    pub sealed: String,
    pub proto: String,
}

pub struct Cli {
    pub c: NetcodeClient,
    pub addr: u64,
    pub tok: String,
    pub t: u64,
}

pub struct Emitted {
    pub bytes: Vec<u8>,
    pub desc: Value,
    pub from: SocketAddr,
    pub presented: u32,
}

pub struct NcWorld {
    pub server: NetcodeServer,
    pub clients: BTreeMap<String, Cli>,
    pub toks: BTreeMap<String, Tok>,
    /// token names in order of issue: datagrams are opened with the most recently issued keys first
    pub tok_order: Vec<String>,
    pub emitted: Vec<Emitted>,
    pub payloads: HashMap<Vec<u8>, i64>,
    pub names: HashMap<String, usize>,
    pub stime: u64,
    pub dead: bool,
}

fn reason_str(r: Option<DisconnectReason>) -> &'static str {
    match r {
        None => "None",
        Some(DisconnectReason::ConnectTokenExpired) => "ConnectTokenExpired",
        Some(DisconnectReason::ConnectionTimedOut) => "ConnectionTimedOut",
        Some(DisconnectReason::ConnectionResponseTimedOut) => "ConnectionResponseTimedOut",
        Some(DisconnectReason::ConnectionRequestTimedOut) => "ConnectionRequestTimedOut",
        Some(DisconnectReason::ConnectionDenied) => "ConnectionDenied",
        Some(DisconnectReason::DisconnectedByClient) => "DisconnectedByClient",
        Some(DisconnectReason::DisconnectedByServer) => "DisconnectedByServer",
    }
}

/// Sequence numbers as TLC can read them: session counters stay as they are, the server's global counter
/// (2^63 + k) maps to 2^29 + k, anything else is clamped.
fn nseq(v: u64) -> i64 {
    if v < (1 << 29) {
        v as i64
    } else if v >= (1 << 63) && v - (1 << 63) < (1 << 28) {
        (1 << 29) + (v - (1 << 63)) as i64
    } else {
        BIG
    }
}

pub fn none_d() -> Value {
    json!({"emit":0,"org":"none","kind":"None","key":"none","proto":"P","seq":0,"len":0,"tok":"none","cseq":0,"cid":0,"cud":0,"ptag":0,"plen":0,
           "label":"none","nth":0,"intact":true,"h":0,"to":0,"nonauth":false})
}

impl NcWorld {
    pub fn new(cfg: &Value) -> NcWorld {
        let n_addr = getu(cfg, "server_addrs").max(1);
        let config = ServerConfig {
            current_time: Duration::from_millis(getu(cfg, "start_ms")),
            max_clients: getu(cfg, "max_clients").max(1) as usize,
            protocol_id: PROTO_P,
            public_addresses: (1..=n_addr).map(srv_addr).collect(),
            // cfg.secure = false: ServerAuthentication::Unsecure (all-zero connect key, host list not checked)
            authentication: if cfg.get("secure").and_then(|v| v.as_bool()) == Some(false) {
                ServerAuthentication::Unsecure
            } else {
                ServerAuthentication::Secure { private_key: KEY_K }
            },
        };
        NcWorld {
            server: NetcodeServer::new(config),
            clients: BTreeMap::new(),
            toks: BTreeMap::new(),
            tok_order: Vec::new(),
            emitted: vec![],
            payloads: HashMap::new(),
            names: HashMap::new(),
            stime: getu(cfg, "start_ms"),
            dead: false,
        }
    }

    pub fn snap(&self) -> Value {
        let r = guarded(|| {
            let mut cl: Vec<Value> = vec![];
            let mut ids = self.server.clients_id();
            ids.sort();
            // clients_id() may hold duplicates when the table is broken: keep them, the observer wants to see that
            for id in ids {
                let addr = self.server.client_addr(id).map(addr_idx).unwrap_or(-1);
                let ud = self.server.user_data(id).map(|u| ud_tag(&u)).unwrap_or(-1);
                let age = self.server.time_since_last_received_packet(id).map(|d| d.as_millis() as i64).unwrap_or(-1);
                cl.push(json!({"id":small(id),"addr":addr,"ud":ud,"age":age.min(BIG),"is":self.server.is_client_connected(id)}));
            }
            let mut pend: Vec<i64> = self.server.verif_pending_addrs().into_iter().map(addr_idx).collect();
            pend.sort();
            json!({"clients":cl,"n":self.server.connected_clients(),"max":self.server.max_clients(),"pending":pend,
                   "t":small(self.server.current_time().as_millis() as u64)})
        });
        r.unwrap_or_else(|_| json!({"clients":[],"n":-1,"max":-1,"pending":[],"t":-1}))
    }

    pub fn csnap(&self, c: &str) -> Value {
        match self.clients.get(c) {
            None => json!({"status":"Gone","reason":"None","age":0,"t":0,"saddr":0}),
            Some(cl) => {
                let r = guarded(|| {
                    let status = if cl.c.is_connected() {
                        "Connected"
                    } else if cl.c.is_connecting() {
                        "Connecting"
                    } else {
                        "Disc"
                    };
                    json!({"status":status,"reason":reason_str(cl.c.disconnect_reason()),
                           "age":(cl.c.time_since_last_received_packet().as_millis() as i64).min(BIG),"t":small(cl.t),
                           "saddr":addr_idx(cl.c.server_addr())})
                });
                r.unwrap_or_else(|_| json!({"status":"Panic","reason":"None","age":0,"t":0,"saddr":0}))
            }
        }
    }

    fn keys(&self) -> Vec<(String, [u8; 32])> {
        let mut v = vec![];
        let mut seen = std::collections::HashSet::new();
        for name in self.tok_order.iter().rev() {
            if !seen.insert(name.clone()) {
                continue;
            }
            if let Some(t) = self.toks.get(name) {
                v.push((format!("c2s:{}", name), t.token.client_to_server_key));
                v.push((format!("s2c:{}", name), t.token.server_to_client_key));
            }
        }
        v
    }

    fn ptag(&self, p: &[u8]) -> i64 {
        *self.payloads.get(p).unwrap_or(&-1)
    }

    /// Abstract description of a datagram, opened with the keys the harness issued (the crate's own codec).
    pub fn describe(&self, b: &[u8]) -> Value {
        let mut d = none_d();
        d["len"] = json!(b.len());
        d["kind"] = json!("Garbage");
        if b.is_empty() {
            return d;
        }
        if b[0] & 0xF == 0 {
            // request shaped
            if b.len() >= 1 + 13 + 8 + 8 + 24 + 1024 {
                let proto = u64::from_le_bytes(b[14..22].try_into().unwrap());
                let private = &b[1 + 13 + 8 + 8 + 24..1 + 13 + 8 + 8 + 24 + 1024];
                d["kind"] = json!("Request");
                d["proto"] = json!(if proto == PROTO_P { "P" } else if proto == PROTO_Q { "Q" } else { "X" });
                for (name, t) in self.toks.iter() {
                    if t.token.private_data[..] == private[..] {
                        d["tok"] = json!(name);
                    }
                }
            }
            return d;
        }
        for (kname, key) in self.keys() {
            for (pname, proto) in [("P", PROTO_P), ("Q", PROTO_Q)] {
                let mut copy = b.to_vec();
                let r = guarded(|| match Packet::decode(&mut copy, proto, Some(&key), None) {
                    Ok((seq, p)) => {
                        let mut x = json!({"seq": nseq(seq)});
                        match p {
                            Packet::ConnectionDenied => x["kind"] = json!("Denied"),
                            Packet::Disconnect => x["kind"] = json!("Disconnect"),
                            Packet::KeepAlive { .. } => x["kind"] = json!("KeepAlive"),
                            Packet::Payload(pl) => {
                                x["kind"] = json!("Payload");
                                x["ptag"] = json!(self.ptag(pl));
                                x["plen"] = json!(pl.len());
                            }
                            Packet::Challenge { token_sequence, token_data } | Packet::Response { token_sequence, token_data } => {
                                x["kind"] = json!(if b[0] & 0xF == 2 { "Challenge" } else { "Response" });
                                x["cseq"] = json!(small(token_sequence));
                                if let Ok(ct) = ChallengeToken::decode(token_data, token_sequence, &self.server.verif_challenge_key()) {
                                    x["cid"] = json!(small(ct.client_id));
                                    x["cud"] = json!(ud_tag(&ct.user_data));
                                } else {
                                    x["cid"] = json!(-1);
                                    x["cud"] = json!(-1);
                                }
                            }
                            Packet::ConnectionRequest { .. } => x["kind"] = json!("Request"),
                        }
                        Some(x)
                    }
                    Err(_) => None,
                });
                if let Ok(Some(x)) = r {
                    for (k, v) in x.as_object().unwrap() {
                        d[k.as_str()] = v.clone();
                    }
                    d["key"] = json!(kname);
                    d["proto"] = json!(pname);
                    d["tok"] = json!(kname[4..].to_string());
                    return d;
                }
            }
        }
        d
    }

    /// Resolve a datagram reference: an emission index, a name given with "as", "last:<org>" (last datagram emitted by
    /// that client or by "S") or "lastto:<client>" (last server datagram addressed to that client).
    pub fn resolve(&self, v: &Value) -> Option<usize> {
        if let Some(n) = v.as_u64() {
            let n = n as usize;
            return if n >= 1 && n <= self.emitted.len() { Some(n) } else { None };
        }
        let s = v.as_str()?;
        if let Some(org) = s.strip_prefix("last:") {
            return self.emitted.iter().rposition(|e| e.desc["org"] == json!(org)).map(|p| p + 1);
        }
        if let Some(c) = s.strip_prefix("lastto:") {
            let a = self.clients.get(c).map(|c| addr_idx(cli_addr(c.addr)))?;
            return self
                .emitted
                .iter()
                .rposition(|e| e.desc["org"] == json!("S") && e.desc.get("to").and_then(|x| x.as_i64()) == Some(a))
                .map(|p| p + 1);
        }
        if let Some(k) = self.names.get(s) {
            return Some(*k);
        }
        // model-exported schedules name emissions "e<k>" by emission number; a step that emits several datagrams registers only
        // its first one under the name given with "as", the others are found by their number
        if let Some(n) = s.strip_prefix('e').and_then(|x| x.parse::<usize>().ok()) {
            return if n >= 1 && n <= self.emitted.len() { Some(n) } else { None };
        }
        None
    }

    fn record(&mut self, bytes: &[u8], org: &str, from: SocketAddr) -> Value {
        let mut desc = self.describe(bytes);
        let mut h: u32 = 0x811C9DC5;
        for b in bytes {
            h = (h ^ *b as u32).wrapping_mul(16777619);
        }
        desc["h"] = json!((h & 0x3FFF_FFFF) as i64);
        desc["emit"] = json!(self.emitted.len() + 1);
        desc["org"] = json!(org);
        desc["label"] = json!("emitted");
        self.emitted.push(Emitted {
            bytes: bytes.to_vec(),
            desc: desc.clone(),
            from,
            presented: 0,
        });
        desc
    }
}

pub struct NcRunner<W: Write> {
    pub out: W,
    pub run: i64,
    pub i: i64,
    pub events: u64,
    pub panics: u64,
    pub skipped: u64,
}

fn result_json(payloads: &HashMap<Vec<u8>, i64>, r: &ServerResult) -> (Value, Option<Vec<u8>>, Option<SocketAddr>) {
    match r {
        ServerResult::None => (json!({"type":"None","id":0,"addr":0,"ud":0,"ptag":0,"plen":0}), None, None),
        ServerResult::PacketToSend { addr, payload } => (
            json!({"type":"PacketToSend","id":0,"addr":addr_idx(*addr),"ud":0,"ptag":0,"plen":0}),
            Some(payload.to_vec()),
            Some(*addr),
        ),
        ServerResult::Payload { client_id, payload } => (
            json!({"type":"Payload","id":small(*client_id),"addr":0,"ud":0,"ptag":*payloads.get(&payload.to_vec()).unwrap_or(&-1),"plen":payload.len()}),
            None,
            None,
        ),
        ServerResult::ClientConnected {
            client_id,
            addr,
            user_data,
            payload,
        } => (
            json!({"type":"ClientConnected","id":small(*client_id),"addr":addr_idx(*addr),"ud":ud_tag(user_data),"ptag":0,"plen":0}),
            Some(payload.to_vec()),
            Some(*addr),
        ),
        ServerResult::ClientDisconnected { client_id, addr, payload } => (
            json!({"type":"ClientDisconnected","id":small(*client_id),"addr":addr_idx(*addr),"ud":0,"ptag":0,"plen":0}),
            payload.as_ref().map(|p| p.to_vec()),
            Some(*addr),
        ),
    }
}

impl<W: Write> NcRunner<W> {
    fn emit(&mut self, mut v: Value) {
        self.i += 1;
        self.events += 1;
        v["run"] = json!(self.run);
        v["i"] = json!(self.i);
        if v.get("panic").is_none() {
            v["panic"] = json!(false);
        }
        writeln!(self.out, "{}", v).unwrap();
    }

    pub fn run_schedule(&mut self, sched: &Value) {
        self.run += 1;
        self.i = 0;
        let cfg = &sched["cfg"];
        let mut w = NcWorld::new(cfg);
        self.emit(json!({"ev":"reset","id":sched["id"],"cfg":cfg}));
        let empty = vec![];
        for st in sched["steps"].as_array().unwrap_or(&empty) {
            if w.dead {
                break;
            }
            self.step(&mut w, st);
        }
        self.emit(json!({"ev":"end"}));
    }

    fn mutate(bytes: &[u8], st: &Value) -> (Vec<u8>, Option<String>) {
        let (b, lab) = Self::mutate_raw(bytes, st);
        // a "mutation" that leaves the bytes as they were is not one
        if b == bytes {
            (b, None)
        } else {
            (b, lab)
        }
    }

    fn mutate_raw(bytes: &[u8], st: &Value) -> (Vec<u8>, Option<String>) {
        let mut b = bytes.to_vec();
        if let Some(m) = st.get("mut") {
            if let Some(bit) = m.get("bit").and_then(|x| x.as_u64()) {
                let pos = (bit / 8) as usize;
                if pos < b.len() {
                    b[pos] ^= 1 << (bit % 8);
                }
                return (b, Some("mutated".into()));
            }
            if let Some(n) = m.get("trunc").and_then(|x| x.as_u64()) {
                b.truncate(n as usize);
                return (b, Some("truncated".into()));
            }
            if let Some(n) = m.get("pad").and_then(|x| x.as_u64()) {
                b.extend(std::iter::repeat(0u8).take(n as usize));
                return (b, Some("padded".into()));
            }
            if let Some(a) = m.get("setbyte").and_then(|x| x.as_array()) {
                let pos = a[0].as_u64().unwrap_or(0) as usize;
                if pos < b.len() {
                    b[pos] = a[1].as_u64().unwrap_or(0) as u8;
                }
                return (b, Some("mutated".into()));
            }
        }
        (b, None)
    }

    fn craft(w: &mut NcWorld, st: &Value) -> Option<Vec<u8>> {
        // builds a datagram with keys the attacker legitimately owns (tokens issued to it) or foreign ones
        let kind = gets(st, "kind");
        let seq = getu(st, "seq");
        let proto = if st.get("pid").is_some() {
            getu(st, "pid")
        } else if gets(st, "proto") == "Q" {
            PROTO_Q
        } else {
            PROTO_P
        };
        let dir = if gets(st, "dir") == "s2c" { "s2c" } else { "c2s" };
        let key: [u8; 32] = match w.toks.get(gets(st, "tok")) {
            Some(t) => {
                if dir == "s2c" {
                    t.token.server_to_client_key
                } else {
                    t.token.client_to_server_key
                }
            }
            None => KEY_F,
        };
        let mut buf = [0u8; 1400];
        let payload: Vec<u8>;
        let packet = match kind {
            "KeepAlive" => Packet::KeepAlive {
                client_index: 0,
                max_clients: 0,
            },
            "Disconnect" => Packet::Disconnect,
            "Denied" => Packet::ConnectionDenied,
            "Payload" => {
                let tag = getu(st, "tag");
                payload = content(tag, getu(st, "len") as usize);
                w.payloads.entry(payload.clone()).or_insert(tag as i64);
                Packet::Payload(&payload)
            }
            "Response" | "Challenge" => {
                // echo the challenge token of an emitted Challenge (or Response) datagram, or forge one under a foreign key
                // the source datagram is referred to by emission number or by name (model-exported schedules use names)
                let from = st.get("chal_from").and_then(|v| w.resolve(v)).unwrap_or(0);
                let (tseq, tdata) = if from >= 1 && from <= w.emitted.len() {
                    let src = &w.emitted[from - 1];
                    let mut found = None;
                    for (_, k) in w.keys() {
                        let mut copy = src.bytes.clone();
                        if let Ok((_, Packet::Challenge { token_sequence, token_data })) | Ok((_, Packet::Response { token_sequence, token_data })) =
                            Packet::decode(&mut copy, PROTO_P, Some(&k), None)
                        {
                            found = Some((token_sequence, token_data));
                            break;
                        }
                    }
                    found?
                } else {
                    match Packet::generate_challenge(getu(st, "cid"), &user_data(getu(st, "cud")), getu(st, "cseq"), &KEY_F).ok()? {
                        Packet::Challenge { token_sequence, token_data } => (token_sequence, token_data),
                        _ => return None,
                    }
                };
                if kind == "Response" {
                    Packet::Response {
                        token_sequence: tseq,
                        token_data: tdata,
                    }
                } else {
                    Packet::Challenge {
                        token_sequence: tseq,
                        token_data: tdata,
                    }
                }
            }
            _ => return None,
        };
        let len = packet.encode(&mut buf, proto, Some((seq, &key))).ok()?;
        Some(buf[..len].to_vec())
    }

    fn step(&mut self, w: &mut NcWorld, st: &Value) {
        let before = w.emitted.len();
        self.step_inner(w, st);
        if let Some(name) = st.get("as").and_then(|x| x.as_str()) {
            // the first datagram emitted by this step gets the name; further ones get name#2, name#3 ...
            for (j, k) in (before..w.emitted.len()).enumerate() {
                let n = if j == 0 { name.to_string() } else { format!("{}#{}", name, j + 1) };
                w.names.insert(n, k + 1);
            }
        }
    }

    /// Honest good round(s): every listed client updates, its datagram reaches the server, the reply reaches the client;
    /// then the server updates and each keep-alive / disconnect reaches its client.
    fn pump(&mut self, w: &mut NcWorld, st: &Value) {
        let dt = getu(st, "dt");
        let names: Vec<String> = st["cs"].as_array().map(|a| a.iter().filter_map(|x| x.as_str().map(|s| s.to_string())).collect()).unwrap_or_default();
        for round in 0..getu(st, "n").max(1) {
            for c in &names {
                if w.dead {
                    return;
                }
                let b0 = w.emitted.len();
                self.step_inner(w, &json!({"a":"cupdate","c":c,"dt":dt}));
                if w.emitted.len() > b0 {
                    let k = w.emitted.len();
                    // datagrams for a silent server address are lost
                    if w.emitted[k - 1].desc.get("to").and_then(|x| x.as_i64()) == Some(101) {
                        let b1 = w.emitted.len();
                        self.step_inner(w, &json!({"a":"sdeliver","d":k}));
                        if w.emitted.len() > b1 {
                            let r = w.emitted.len();
                            self.step_inner(w, &json!({"a":"cdeliver","c":c,"d":r}));
                        }
                    }
                }
            }
            if w.dead {
                return;
            }
            // the server application sends a payload to the listed ids in every round ("spay": [[id, tag of the first round], ...],
            // the tag grows with the rounds of this step); each one reaches the listed client it is addressed to
            if let Some(sp) = st.get("spay").and_then(|x| x.as_array()) {
                for p in sp {
                    let id = p.get(0).and_then(|x| x.as_u64()).unwrap_or(0);
                    let tag = p.get(1).and_then(|x| x.as_u64()).unwrap_or(0) + round;
                    let b1 = w.emitted.len();
                    self.step_inner(w, &json!({"a":"spayload","id":id,"tag":tag,"len":8}));
                    if w.emitted.len() > b1 {
                        let k = w.emitted.len();
                        let to = w.emitted[k - 1].desc.get("to").and_then(|x| x.as_i64());
                        let target = names.iter().find(|c| w.clients.get(*c).map(|cl| addr_idx(cli_addr(cl.addr))) == to).cloned();
                        if let Some(c) = target {
                            self.step_inner(w, &json!({"a":"cdeliver","c":c,"d":k}));
                        }
                    }
                }
            }
            let b2 = w.emitted.len();
            self.step_inner(w, &json!({"a":"supdate","dt":dt}));
            for k in (b2 + 1)..=w.emitted.len() {
                let to = w.emitted[k - 1].desc.get("to").and_then(|x| x.as_i64());
                let target = names.iter().find(|c| w.clients.get(*c).map(|cl| addr_idx(cli_addr(cl.addr))) == to).cloned();
                if let Some(c) = target {
                    self.step_inner(w, &json!({"a":"cdeliver","c":c,"d":k}));
                }
            }
            self.emit(json!({"ev":"round_end","cs":names}));
        }
    }

    fn step_inner(&mut self, w: &mut NcWorld, st: &Value) {
        let a = gets(st, "a").to_string();
        match a.as_str() {
            "pump" => self.pump(w, st),
            "exchange" => {
                // one honest exchange: the client updates, its datagram reaches the server, the reply reaches the client
                let c = gets(st, "c").to_string();
                let b0 = w.emitted.len();
                self.step_inner(w, &json!({"a":"cupdate","c":c,"dt":getu(st,"dt")}));
                if w.emitted.len() > b0 && !w.dead {
                    let k = w.emitted.len();
                    let b1 = w.emitted.len();
                    // "from": the holder of the token shows up at another address (the reply still reaches the same client object)
                    if st.get("from").is_some() {
                        self.step_inner(w, &json!({"a":"sdeliver","d":k,"from":getu(st,"from")}));
                    } else {
                        self.step_inner(w, &json!({"a":"sdeliver","d":k}));
                    }
                    if w.emitted.len() > b1 && !w.dead {
                        let r = w.emitted.len();
                        self.step_inner(w, &json!({"a":"cdeliver","c":c,"d":r}));
                    }
                }
            }
            "token" => {
                let name = gets(st, "t").to_string();
                // "Z": the all-zero key ClientAuthentication::Unsecure seals its self-made token with
                let key = match gets(st, "key") {
                    "F" => KEY_F,
                    "Z" => [0u8; 32],
                    _ => KEY_K,
                };
                let proto = if gets(st, "proto") == "Q" { PROTO_Q } else { PROTO_P };
                let hosts: Vec<SocketAddr> = st["hosts"].as_array().map(|a| a.iter().map(|x| srv_addr(x.as_u64().unwrap_or(1))).collect()).unwrap_or_default();
                let create = Duration::from_millis(getu(st, "create_ms"));
                let r = guarded(|| {
                    ConnectToken::generate(
                        create,
                        proto,
                        getu(st, "expire_s"),
                        getu(st, "id"),
                        geti(st, "timeout_s") as i32,
                        hosts.clone(),
                        Some(&user_data(getu(st, "ud"))),
                        &key,
                    )
                });
                let ok = matches!(r, Ok(Ok(_)));
                // the protocol id the holder of the token works with (its public part, after tampering)
                let mut cproto = if gets(st, "proto") == "Q" { "Q" } else { "P" };
                if let Ok(Ok(mut t)) = r {
                    // single-field tampering of the public part
                    if let Some(m) = st.get("tamper") {
                        match gets(m, "field") {
                            "expire" => t.expire_timestamp = t.expire_timestamp.wrapping_add(geti(m, "delta") as u64),
                            "proto" => t.protocol_id = getu(m, "value"),
                            // the holder believes in another protocol id (the sealed part and the keys stay as issued)
                            "proto_only" => t.protocol_id = getu(m, "value"),
                            "private_bit" => {
                                let bit = getu(m, "bit") as usize;
                                t.private_data[(bit / 8) % 1024] ^= 1 << (bit % 8);
                            }
                            "xnonce_bit" => {
                                let bit = getu(m, "bit") as usize;
                                t.xnonce[(bit / 8) % 24] ^= 1 << (bit % 8);
                            }
                            _ => {}
                        }
                    }
                    cproto = if t.protocol_id == PROTO_P {
                        "P"
                    } else if t.protocol_id == PROTO_Q {
                        "Q"
                    } else {
                        "X"
                    };
                    w.tok_order.push(name.clone());
                    w.toks.insert(
                        name.clone(),
                        Tok {
                            token: t,
                            sealed: gets(st, "key").to_string(),
                            proto: gets(st, "proto").to_string(),
                        },
                    );
                }
                let tampered = st.get("tamper").map(|m| gets(m, "field").to_string()).unwrap_or_else(|| "none".into());
                self.emit(json!({"ev":"token","t":name,"id":getu(st,"id"),"ud":getu(st,"ud"),"hosts":st["hosts"],
                    "create":getu(st,"create_ms")/1000,"expire":getu(st,"create_ms")/1000 + getu(st,"expire_s"),"timeout":geti(st,"timeout_s"),
                    "sealed":match gets(st,"key") { "F" => "F", "Z" => "Z", _ => "K" },"proto":if gets(st,"proto")=="Q" {"Q"} else {"P"},"cproto":cproto,"tamper":tampered,"ok":ok}));
            }
            "client" => {
                let name = gets(st, "c").to_string();
                let tok = gets(st, "t").to_string();
                let addr = getu(st, "addr");
                let now = getu(st, "now_ms");
                let res = match w.toks.get(&tok) {
                    None => "notoken",
                    Some(t) => {
                        let token = t.token.clone();
                        match guarded(|| NetcodeClient::new(Duration::from_millis(now), ClientAuthentication::Secure { connect_token: token })) {
                            Ok(Ok(c)) => {
                                w.clients.insert(
                                    name.clone(),
                                    Cli {
                                        c,
                                        addr,
                                        tok: tok.clone(),
                                        t: now,
                                    },
                                );
                                "ok"
                            }
                            Ok(Err(_)) => "err",
                            Err(_) => {
                                self.panics += 1;
                                "panic"
                            }
                        }
                    }
                };
                let cs1 = w.csnap(&name);
                self.emit(json!({"ev":"client","c":name,"t":tok,"addr":addr,"res":res,"cs1":cs1,"panic":res=="panic"}));
            }
            "cupdate" => {
                let name = gets(st, "c").to_string();
                let dt = getu(st, "dt");
                let cs0 = w.csnap(&name);
                let mut out: Option<(Vec<u8>, SocketAddr)> = None;
                let mut panic = false;
                if let Some(cl) = w.clients.get_mut(&name) {
                    cl.t += dt;
                    match guarded(|| cl.c.update(Duration::from_millis(dt)).map(|(b, a)| (b.to_vec(), a))) {
                        Ok(o) => out = o,
                        Err(_) => panic = true,
                    }
                }
                let cs1 = w.csnap(&name);
                let from = w.clients.get(&name).map(|c| cli_addr(c.addr)).unwrap_or(cli_addr(99));
                let d = match &out {
                    Some((b, to)) => {
                        let mut d = w.record(b, &name, from);
                        d["to"] = json!(addr_idx(*to));
                        let k = w.emitted.len() - 1;
                        w.emitted[k].desc = d.clone();
                        d
                    }
                    None => none_d(),
                };
                self.emit(json!({"ev":"cupdate","c":name,"dt":dt,"out":d,"cs0":cs0,"cs1":cs1,"panic":panic}));
                if panic {
                    self.panics += 1;
                    w.clients.remove(&name);
                }
            }
            "supdate" => {
                let dt = getu(st, "dt");
                let snap0 = w.snap();
                let mut panic = guarded(|| w.server.update(Duration::from_millis(dt))).is_err();
                w.stime += dt;
                let ids = guarded(|| w.server.clients_id()).unwrap_or_default();
                let mut outs: Vec<Value> = vec![];
                for id in ids {
                    let r = guarded(|| {
                        let r = w.server.update_client(id);
                        let (j, b, a) = result_json(&w.payloads, &r);
                        (j, b, a)
                    });
                    match r {
                        Ok((mut j, b, a)) => {
                            j["for"] = json!(small(id));
                            j["d"] = match (b, a) {
                                (Some(b), Some(a)) => {
                                    let mut d = w.record(&b, "S", srv_addr(1));
                                    d["to"] = json!(addr_idx(a));
                                    let k = w.emitted.len() - 1;
                                    w.emitted[k].desc = d.clone();
                                    d
                                }
                                _ => none_d(),
                            };
                            outs.push(j);
                        }
                        Err(_) => panic = true,
                    }
                }
                let snap1 = w.snap();
                self.emit(json!({"ev":"supdate","dt":dt,"outs":outs,"snap0":snap0,"snap1":snap1,"panic":panic}));
                if panic {
                    self.panics += 1;
                    w.dead = true;
                }
            }
            "sdeliver" | "scraft" | "sraw" | "srequest" => {
                // present a datagram to the server
                let (bytes, mut d, default_from): (Vec<u8>, Value, SocketAddr) = match a.as_str() {
                    "sdeliver" => {
                        let k = match w.resolve(&st["d"]) {
                            Some(k) => k,
                            None => {
                                self.skipped += 1;
                                self.emit(json!({"ev":"skip","why":"no such datagram"}));
                                return;
                            }
                        };
                        let e = &w.emitted[k - 1];
                        if e.desc["org"] == json!("S") && !getb(st, "reflect") {
                            self.skipped += 1;
                            self.emit(json!({"ev":"skip","why":"datagram was emitted by the server"}));
                            return;
                        }
                        let (b, lab) = Self::mutate(&e.bytes, st);
                        let mut d = e.desc.clone();
                        d["nth"] = json!(e.presented);
                        d["label"] = json!(lab.clone().unwrap_or_else(|| if e.presented == 0 { "genuine".into() } else { "replay".to_string() }));
                        d["intact"] = json!(lab.is_none() || lab.as_deref() == Some("padded"));
                        d["len"] = json!(b.len());
                        (b, d, e.from)
                    }
                    "scraft" => match Self::craft(w, st) {
                        None => {
                            self.skipped += 1;
                            self.emit(json!({"ev":"skip","why":"cannot craft"}));
                            return;
                        }
                        Some(b) => {
                            let (b, lab) = Self::mutate(&b, st);
                            let mut d = w.describe(&b);
                            d["label"] = json!(lab.unwrap_or_else(|| "crafted".into()));
                            d["org"] = json!("attacker");
                            (b, d, cli_addr(getu(st, "from").max(1)))
                        }
                    },
                    "srequest" => {
                        let t = match w.toks.get(gets(st, "t")) {
                            None => {
                                self.skipped += 1;
                                self.emit(json!({"ev":"skip","why":"no token"}));
                                return;
                            }
                            Some(t) => t.token.clone(),
                        };
                        let mut buf = [0u8; 1400];
                        let p = Packet::connection_request_from_token(&t);
                        let len = p.encode(&mut buf, t.protocol_id, None).unwrap_or(0);
                        let (b, lab) = Self::mutate(&buf[..len], st);
                        let mut d = w.describe(&b);
                        // a request whose bytes were changed (other than by padding) no longer carries the token as issued
                        d["intact"] = json!(lab.is_none() || lab.as_deref() == Some("padded"));
                        d["label"] = json!(lab.unwrap_or_else(|| "crafted".into()));
                        d["org"] = json!("attacker");
                        d["tok"] = json!(gets(st, "t"));
                        (b, d, cli_addr(getu(st, "from").max(1)))
                    }
                    _ => {
                        let b = unhex(gets(st, "hex"));
                        let mut d = w.describe(&b);
                        d["label"] = json!("garbage");
                        d["org"] = json!("attacker");
                        (b, d, cli_addr(getu(st, "from").max(1)))
                    }
                };
                let from = if st.get("from").is_some() { cli_addr(getu(st, "from")) } else { default_from };
                if a == "sdeliver" {
                    let k = w.resolve(&st["d"]).unwrap_or(1);
                    if from != default_from && d["label"] != json!("mutated") && d["label"] != json!("truncated") {
                        d["label"] = json!("readdressed");
                    }
                    if d["label"] == json!("genuine") || d["label"] == json!("replay") {
                        w.emitted[k - 1].presented += 1;
                    }
                }
                for k in ["shape", "ctx", "nonauth"] {
                    if let Some(v) = st.get(k) {
                        d[k] = v.clone();
                    }
                }
                // the generator states that this bit flip is one no key binds (the decoder ignores the bit): the datagram is as good as intact
                if st.get("nonauth") == Some(&json!(false)) && d["label"] == json!("mutated") {
                    d["benign"] = json!(true);
                }
                if st.get("mut").is_some() && (d["label"] == json!("genuine") || d["label"] == json!("replay")) {
                    // the requested mutation did not change the bytes: the generator's verdict does not apply
                    d["nonauth"] = json!(false);
                }
                let snap0 = w.snap();
                let mut buf = bytes.clone();
                let r = guarded(|| {
                    let r = w.server.process_packet(from, &mut buf);
                    result_json(&w.payloads, &r)
                });
                let snap1 = w.snap();
                match r {
                    Ok((res, b, a)) => {
                        let reply = match (b, a) {
                            (Some(b), Some(a)) => {
                                let mut rd = w.record(&b, "S", srv_addr(1));
                                rd["to"] = json!(addr_idx(a));
                                let k = w.emitted.len() - 1;
                                w.emitted[k].desc = rd.clone();
                                rd
                            }
                            _ => none_d(),
                        };
                        self.emit(json!({"ev":"sdeliver","from":addr_idx(from),"d":d,"res":res,"reply":reply,"snap0":snap0,"snap1":snap1}));
                    }
                    Err(msg) => {
                        self.panics += 1;
                        w.dead = true;
                        self.emit(json!({"ev":"sdeliver","from":addr_idx(from),"d":d,"res":{"type":"Panic","id":0,"addr":0,"ud":0,"ptag":0,"plen":0},
                            "reply":none_d(),"snap0":snap0,"snap1":snap1,"panic":true,"pmsg":msg}));
                    }
                }
            }
            "cdeliver" | "ccraft" | "craw" => {
                let name = gets(st, "c").to_string();
                let (bytes, mut d): (Vec<u8>, Value) = match a.as_str() {
                    "cdeliver" => {
                        let k = match w.resolve(&st["d"]) {
                            Some(k) => k,
                            None => {
                                self.skipped += 1;
                                self.emit(json!({"ev":"skip","why":"no such datagram"}));
                                return;
                            }
                        };
                        let e = &w.emitted[k - 1];
                        let (b, lab) = Self::mutate(&e.bytes, st);
                        let mut d = e.desc.clone();
                        d["nth"] = json!(e.presented);
                        d["label"] = json!(lab.clone().unwrap_or_else(|| if e.presented == 0 { "genuine".into() } else { "replay".to_string() }));
                        d["intact"] = json!(lab.is_none() || lab.as_deref() == Some("padded"));
                        d["len"] = json!(b.len());
                        // a server datagram is genuine only for the client it was addressed to
                        let mine = w.clients.get(&name).map(|c| addr_idx(cli_addr(c.addr)));
                        if lab.is_none() && (e.desc["org"] != json!("S") || e.desc.get("to").and_then(|x| x.as_i64()) != mine) {
                            d["label"] = json!("readdressed");
                        }
                        if d["label"] == json!("genuine") || d["label"] == json!("replay") {
                            w.emitted[k - 1].presented += 1;
                        }
                        (b, d)
                    }
                    "ccraft" => match Self::craft(w, st) {
                        None => {
                            self.skipped += 1;
                            self.emit(json!({"ev":"skip","why":"cannot craft"}));
                            return;
                        }
                        Some(b) => {
                            let (b, lab) = Self::mutate(&b, st);
                            let mut d = w.describe(&b);
                            d["label"] = json!(lab.unwrap_or_else(|| "crafted".into()));
                            d["org"] = json!("attacker");
                            (b, d)
                        }
                    },
                    _ => {
                        let b = unhex(gets(st, "hex"));
                        let mut d = w.describe(&b);
                        d["label"] = json!("garbage");
                        d["org"] = json!("attacker");
                        (b, d)
                    }
                };
                for k in ["shape", "ctx", "nonauth"] {
                    if let Some(v) = st.get(k) {
                        d[k] = v.clone();
                    }
                }
                // the generator states that this bit flip is one no key binds (the decoder ignores the bit): the datagram is as good as intact
                if st.get("nonauth") == Some(&json!(false)) && d["label"] == json!("mutated") {
                    d["benign"] = json!(true);
                }
                if st.get("mut").is_some() && (d["label"] == json!("genuine") || d["label"] == json!("replay")) {
                    d["nonauth"] = json!(false);
                }
                let cs0 = w.csnap(&name);
                let mut buf = bytes.clone();
                let r = match w.clients.get_mut(&name) {
                    None => Ok(None),
                    Some(cl) => guarded(|| cl.c.process_packet(&mut buf).map(|p| p.to_vec())),
                };
                let cs1 = w.csnap(&name);
                match r {
                    Ok(p) => {
                        let res = match &p {
                            Some(p) => json!({"some":true,"ptag":w.ptag(p),"plen":p.len()}),
                            None => json!({"some":false,"ptag":0,"plen":0}),
                        };
                        self.emit(json!({"ev":"cdeliver","c":name,"d":d,"res":res,"cs0":cs0,"cs1":cs1}));
                    }
                    Err(msg) => {
                        self.panics += 1;
                        w.clients.remove(&name);
                        self.emit(json!({"ev":"cdeliver","c":name,"d":d,"res":{"some":false,"ptag":0,"plen":0},"cs0":cs0,"cs1":cs1,"panic":true,"pmsg":msg}));
                    }
                }
            }
            "spayload" => {
                let id = getu(st, "id");
                let tag = getu(st, "tag");
                let payload = content(tag, getu(st, "len") as usize);
                w.payloads.entry(payload.clone()).or_insert(tag as i64);
                let snap0 = w.snap();
                let r = guarded(|| w.server.generate_payload_packet(id, &payload).map(|(a, b)| (a, b.to_vec())).ok());
                let snap1 = w.snap();
                let (ok, d) = match &r {
                    Ok(Some((a, b))) => {
                        let mut d = w.record(b, "S", srv_addr(1));
                        d["to"] = json!(addr_idx(*a));
                        let k = w.emitted.len() - 1;
                        w.emitted[k].desc = d.clone();
                        (true, d)
                    }
                    _ => (false, none_d()),
                };
                self.emit(json!({"ev":"spayload","id":id,"ptag":tag,"plen":payload.len(),"ok":ok,"d":d,"snap0":snap0,"snap1":snap1,"panic":r.is_err()}));
            }
            "cpayload" => {
                let name = gets(st, "c").to_string();
                let tag = getu(st, "tag");
                let payload = content(tag, getu(st, "len") as usize);
                w.payloads.entry(payload.clone()).or_insert(tag as i64);
                let cs0 = w.csnap(&name);
                let r = match w.clients.get_mut(&name) {
                    None => Ok(None),
                    Some(cl) => guarded(|| cl.c.generate_payload_packet(&payload).map(|(a, b)| (a, b.to_vec())).ok()),
                };
                let cs1 = w.csnap(&name);
                let from = w.clients.get(&name).map(|c| cli_addr(c.addr)).unwrap_or(cli_addr(99));
                let (ok, d) = match &r {
                    Ok(Some((a, b))) => {
                        let mut d = w.record(b, &name, from);
                        d["to"] = json!(addr_idx(*a));
                        let k = w.emitted.len() - 1;
                        w.emitted[k].desc = d.clone();
                        (true, d)
                    }
                    _ => (false, none_d()),
                };
                self.emit(json!({"ev":"cpayload","c":name,"ptag":tag,"plen":payload.len(),"ok":ok,"d":d,"cs0":cs0,"cs1":cs1,"panic":r.is_err()}));
            }
            "sdisconnect" => {
                let id = getu(st, "id");
                let snap0 = w.snap();
                let r = guarded(|| {
                    let r = w.server.disconnect(id);
                    result_json(&w.payloads, &r)
                });
                let snap1 = w.snap();
                match r {
                    Ok((res, b, a)) => {
                        let d = match (b, a) {
                            (Some(b), Some(a)) => {
                                let mut d = w.record(&b, "S", srv_addr(1));
                                d["to"] = json!(addr_idx(a));
                                let k = w.emitted.len() - 1;
                                w.emitted[k].desc = d.clone();
                                d
                            }
                            _ => none_d(),
                        };
                        self.emit(json!({"ev":"sdisconnect","id":id,"res":res,"d":d,"snap0":snap0,"snap1":snap1}));
                    }
                    Err(_) => {
                        self.panics += 1;
                        w.dead = true;
                        self.emit(json!({"ev":"sdisconnect","id":id,"res":{"type":"Panic","id":0,"addr":0,"ud":0,"ptag":0,"plen":0},"d":none_d(),"snap0":snap0,"snap1":snap1,"panic":true}));
                    }
                }
            }
            "cdisconnect" => {
                let name = gets(st, "c").to_string();
                let cs0 = w.csnap(&name);
                let r = match w.clients.get_mut(&name) {
                    None => Ok(None),
                    Some(cl) => guarded(|| cl.c.disconnect().map(|(a, b)| (a, b.to_vec())).ok()),
                };
                let cs1 = w.csnap(&name);
                let from = w.clients.get(&name).map(|c| cli_addr(c.addr)).unwrap_or(cli_addr(99));
                let d = match &r {
                    Ok(Some((a, b))) => {
                        let mut d = w.record(b, &name, from);
                        d["to"] = json!(addr_idx(*a));
                        let k = w.emitted.len() - 1;
                        w.emitted[k].desc = d.clone();
                        d
                    }
                    _ => none_d(),
                };
                self.emit(json!({"ev":"cdisconnect","c":name,"d":d,"cs0":cs0,"cs1":cs1,"panic":r.is_err()}));
            }
            "setmax" => {
                let snap0 = w.snap();
                let r = guarded(|| w.server.set_max_clients(getu(st, "n") as usize));
                let snap1 = w.snap();
                self.emit(json!({"ev":"setmax","n":getu(st,"n"),"snap0":snap0,"snap1":snap1,"panic":r.is_err()}));
            }
            "tokenbytes" => {
                // ConnectToken::read + NetcodeClient::new + update on hostile token bytes
                let b = unhex(gets(st, "hex"));
                let r = guarded(|| {
                    let mut cur = std::io::Cursor::new(&b[..]);
                    match ConnectToken::read(&mut cur) {
                        Err(_) => "read_err",
                        Ok(t) => match NetcodeClient::new(Duration::from_millis(getu(st, "now_ms")), ClientAuthentication::Secure { connect_token: t }) {
                            Err(_) => "new_err",
                            Ok(mut c) => {
                                for _ in 0..3 {
                                    let _ = c.update(Duration::from_millis(getu(st, "dt").max(1)));
                                }
                                "ok"
                            }
                        },
                    }
                });
                let (res, panic, pmsg) = match r {
                    Ok(s) => (s.to_string(), false, String::new()),
                    Err(m) => ("panic".to_string(), true, m),
                };
                if panic {
                    self.panics += 1;
                }
                self.emit(json!({"ev":"tokenbytes","len":b.len(),"shape":gets(st,"shape"),"res":res,"panic":panic,"pmsg":pmsg}));
            }
            "rt_netcode" => {
                let kind = gets(st, "kind").to_string();
                let seq = getu(st, "seq");
                let key = KEY_F;
                let payload = vec![0x3Cu8; getu(st, "plen") as usize];
                let r = guarded(|| {
                    let packet = match kind.as_str() {
                        "KeepAlive" => Packet::KeepAlive { client_index: 3, max_clients: 9 },
                        "Disconnect" => Packet::Disconnect,
                        "Denied" => Packet::ConnectionDenied,
                        "Payload" => Packet::Payload(&payload),
                        "Challenge" => Packet::Challenge { token_sequence: seq ^ 0x55, token_data: [7u8; 300] },
                        "Response" => Packet::Response { token_sequence: seq ^ 0x55, token_data: [9u8; 300] },
                        _ => Packet::ConnectionRequest { version_info: *b"NETCODE 1.02\0", protocol_id: 7, expire_timestamp: seq, xnonce: [1u8; 24], data: [2u8; 1024] },
                    };
                    let mut buf = [0u8; 1400];
                    match packet.encode(&mut buf, PROTO_P, Some((seq, &key))) {
                        Err(_) => ("enc_err", 0usize, false),
                        Ok(len) => {
                            let mut copy = buf[..len].to_vec();
                            match Packet::decode(&mut copy, PROTO_P, Some(&key), None) {
                                Ok((s2, q)) => ("ok", len, q == packet && (s2 == seq || kind == "Request")),
                                Err(_) => ("dec_err", len, false),
                            }
                        }
                    }
                });
                let (res, len, ok) = r.clone().unwrap_or(("panic", 0, false));
                self.emit(json!({"ev":"rt","layer":"netcode","kind":kind,"res":res,"len":len,"ok":ok,"shape":gets(st,"shape"),"panic":r.is_err()}));
            }
            "rt_token" => {
                let hosts: Vec<SocketAddr> = st["hosts"].as_array().map(|a| a.iter().map(|x| {
                    let v = x.as_u64().unwrap_or(1);
                    // 3000..: IPv6 addresses of special blocks (IPv4-mapped ::ffff:a.b.c.d, IPv4-compatible, loopback, unspecified-like,
                    // link-local): a token lists the address it was given, whatever block it is from
                    if v >= 3000 {
                        let k = v - 3000;
                        match k % 5 {
                            0 => format!("[::ffff:10.1.{}.{}]:{}", (k / 5) % 200, k % 200 + 1, 6100 + k % 100).parse().unwrap(),
                            1 => format!("[::10.2.{}.{}]:{}", (k / 5) % 200, k % 200 + 1, 6100 + k % 100).parse().unwrap(),
                            2 => format!("[::1]:{}", 6100 + k % 100).parse().unwrap(),
                            3 => format!("[fe80::{:x}]:{}", k + 1, 6100 + k % 100).parse().unwrap(),
                            _ => format!("[64:ff9b::a01:{:x}]:{}", k + 1, 6100 + k % 100).parse().unwrap(),
                        }
                    } else if v >= 1000 { format!("[2001:db8::{:x}]:{}", v, 6000 + v % 100).parse().unwrap() } else { srv_addr(v % 250 + 1) }
                }).collect()).unwrap_or_default();
                let r = guarded(|| {
                    let t = match ConnectToken::generate(Duration::from_secs(getu(st, "create")), PROTO_P, getu(st, "expire_s"), getu(st, "id"), geti(st, "timeout_s") as i32,
                                                       hosts.clone(), Some(&user_data(getu(st, "ud"))), &KEY_K) {
                        Ok(t) => t,
                        Err(_) => return ("gen_err", false),
                    };
                    let mut b: Vec<u8> = vec![];
                    if t.write(&mut b).is_err() {
                        return ("write_err", false);
                    }
                    let t2 = match ConnectToken::read(&mut &b[..]) {
                        Ok(x) => x,
                        Err(_) => return ("read_err", false),
                    };
                    let mut b2: Vec<u8> = vec![];
                    let _ = t2.write(&mut b2);
                    // seal / open of the private part through the crate's own functions
                    let p = match renetcode::verif::private_token_decode(&t.private_data, PROTO_P, t.expire_timestamp, &t.xnonce, &KEY_K) {
                        Ok(p) => p,
                        Err(_) => return ("open_err", false),
                    };
                    let sealed = renetcode::verif::private_token_encode(&p, PROTO_P, t.expire_timestamp, &t.xnonce, &KEY_K);
                    let again = sealed.ok().and_then(|s| renetcode::verif::private_token_decode(&s, PROTO_P, t.expire_timestamp, &t.xnonce, &KEY_K).ok());
                    let same_private = again.as_ref() == Some(&p) && p.client_id == getu(st, "id") && p.server_addresses == t.server_addresses
                        && p.client_to_server_key == t.client_to_server_key && p.server_to_client_key == t.server_to_client_key;
                    ("ok", t2 == t && b2 == b && same_private)
                });
                let (res, ok) = r.clone().unwrap_or(("panic", false));
                self.emit(json!({"ev":"rt","layer":"token","kind":"ConnectToken","res":res,"len":hosts.len(),"ok":ok || res == "gen_err","shape":gets(st,"shape"),"panic":r.is_err()}));
            }
            "re_netcode" => {
                // a datagram that decodes (with the key of its session) re-encodes to bytes that decode to the same value
                let k = match w.resolve(&st["d"]) {
                    Some(k) => k,
                    None => {
                        self.skipped += 1;
                        self.emit(json!({"ev":"skip","why":"no such datagram"}));
                        return;
                    }
                };
                let (b, _) = Self::mutate(&w.emitted[k - 1].bytes, st);
                let keys = w.keys();
                let r = guarded(|| {
                    for (_, key) in keys.iter() {
                        let mut copy = b.clone();
                        if let Ok((seq, p)) = Packet::decode(&mut copy, PROTO_P, Some(key), None) {
                            let mut buf = [0u8; 1400];
                            return match p.encode(&mut buf, PROTO_P, Some((seq, key))) {
                                Err(_) => (true, false),
                                Ok(len) => {
                                    let mut c2 = buf[..len].to_vec();
                                    match Packet::decode(&mut c2, PROTO_P, Some(key), None) {
                                        Ok((s2, q)) => (true, s2 == seq && format!("{:?}", q) == format!("{:?}", p)),
                                        Err(_) => (true, false),
                                    }
                                }
                            };
                        }
                    }
                    (false, true)
                });
                let (dec, ok) = r.clone().unwrap_or((false, false));
                self.emit(json!({"ev":"re","layer":"netcode","decodable":dec,"ok":ok,"len":b.len(),"shape":gets(st,"shape"),"panic":r.is_err()}));
            }
            "mark" => {
                // markers for bounded liveness (heal, good round ends) pass through to the trace
                let mut v = st.clone();
                v["ev"] = json!(gets(st, "mark"));
                v.as_object_mut().unwrap().remove("a");
                v.as_object_mut().unwrap().remove("mark");
                self.emit(v);
            }
            _ => {
                self.emit(json!({"ev":"skip","why":format!("unknown step {}", a)}));
            }
        }
    }
}
