//! rvh — conformance harness binding the TLA+ specifications to the real renet / renetcode code.
mod msg;
mod nc;
mod stack;
mod util;

use std::fs::File;
use std::io::{BufRead, BufReader, BufWriter, Write};

fn usage() -> ! {
    eprintln!("usage: rvh msg|nc|stack <schedules.ndjson> <trace-out.ndjson>");
    std::process::exit(2)
}

fn main() {
    let args: Vec<String> = std::env::args().collect();
    if args.len() < 2 {
        usage();
    }
    util::silence_panics();
    match args[1].as_str() {
        "msg" => {
            if args.len() < 4 {
                usage();
            }
            let inp = BufReader::new(File::open(&args[2]).expect("open schedules"));
            let out = BufWriter::new(File::create(&args[3]).expect("create trace"));
            let mut r = msg::Runner {
                out,
                run: 0,
                i: 0,
                events: 0,
                panics: 0,
                skipped: 0,
                extra: None,
            };
            for line in inp.lines() {
                let line = line.expect("read");
                if line.trim().is_empty() {
                    continue;
                }
                let sched: serde_json::Value = serde_json::from_str(&line).expect("schedule json");
                r.run_schedule(&sched);
            }
            r.out.flush().unwrap();
            println!("{}", serde_json::json!({"runs": r.run, "events": r.events, "panics": r.panics, "skipped": r.skipped}));
        }
        "nc" => {
            if args.len() < 4 {
                usage();
            }
            let inp = BufReader::new(File::open(&args[2]).expect("open schedules"));
            let out = BufWriter::new(File::create(&args[3]).expect("create trace"));
            let mut r = nc::NcRunner {
                out,
                run: 0,
                i: 0,
                events: 0,
                panics: 0,
                skipped: 0,
            };
            for line in inp.lines() {
                let line = line.expect("read");
                if line.trim().is_empty() {
                    continue;
                }
                let sched: serde_json::Value = serde_json::from_str(&line).expect("schedule json");
                r.run_schedule(&sched);
            }
            r.out.flush().unwrap();
            println!("{}", serde_json::json!({"runs": r.run, "events": r.events, "panics": r.panics, "skipped": r.skipped}));
        }
        "stack" => {
            if args.len() < 4 {
                usage();
            }
            let inp = BufReader::new(File::open(&args[2]).expect("open schedules"));
            let out = BufWriter::new(File::create(&args[3]).expect("create trace"));
            let mut r = stack::StackRunner {
                out,
                run: 0,
                i: 0,
                events: 0,
                panics: 0,
                skipped: 0,
            };
            for line in inp.lines() {
                let line = line.expect("read");
                if line.trim().is_empty() {
                    continue;
                }
                let sched: serde_json::Value = serde_json::from_str(&line).expect("schedule json");
                r.run_schedule(&sched);
            }
            r.out.flush().unwrap();
            println!("{}", serde_json::json!({"runs": r.run, "events": r.events, "panics": r.panics, "skipped": r.skipped}));
        }
        _ => usage(),
    }
}
