----------------------------- MODULE MC_Transport -----------------------------
(***************************************************************************)
(* The renet_netcode glue (renet_netcode/src/server.rs:114-197 and         *)
(* client.rs:84-165): how NetcodeServerTransport::update / send_packets    *)
(* and NetcodeClientTransport::update / send_packets keep the netcode      *)
(* sessions and the renet connections in lock-step.  Both layers are       *)
(* abstracted to what the glue looks at: per client id a netcode session   *)
(* state and a renet connection state on each side, the server's event     *)
(* queue, and the datagram kinds in flight.  The relay decides per step,   *)
(* client and direction whether the queued datagrams pass or are dropped.  *)
(* Used for C20: LockStep, EventsOnce, BothSides as invariants, and the     *)
(* state graph is exported as relay schedules for the real UDP stack.      *)
(***************************************************************************)
EXTENDS Integers, Sequences, FiniteSets, TLC, Json

CONSTANTS Ids, MaxSteps, MaxDisc, Export, ExportOneIn,
          StepDt,        \* every step advances its endpoint by StepDt ms (>= the 250 ms send rate: every update emits)
          TimeoutS,      \* time-out of the connect tokens in seconds
          TimeoutSteps   \* the smallest n with n * StepDt > TimeoutS * 1000: an endpoint that heard nothing for n steps gives up

VARIABLES sn,    \* server netcode session per id: "none" | "pending" | "conn"
          sr,    \* server renet connection per id: "absent" | "conn" | "disc"
          cn,    \* client netcode state: "req" | "resp" | "conn" | "disc"
          cr,    \* client renet status: "connecting" | "connected" | "disc"
          up,    \* datagram kinds queued at the relay towards the server, per id (a set)
          down,  \* ... towards the client
          evq,   \* server events not yet read
          seen,  \* per id: is a ClientConnected outstanding (observer)
          asked, \* ids whose disconnection somebody asked for
          cq,    \* client: steps since the last packet the netcode client accepted (age of last_packet_received_time)
          sq,    \* server: steps since the last packet accepted from the connected client
          tout,  \* ids for which a time-out fired on either side (history)
          ctl, hist
vars == <<sn, sr, cn, cr, up, down, evq, seen, asked, cq, sq, tout, ctl, hist>>

Init == /\ sn = [i \in Ids |-> "none"] /\ sr = [i \in Ids |-> "absent"]
        /\ cn = [i \in Ids |-> "req"] /\ cr = [i \in Ids |-> "connecting"]
        /\ up = [i \in Ids |-> {}] /\ down = [i \in Ids |-> {}]
        /\ evq = <<>> /\ seen = [i \in Ids |-> FALSE] /\ asked = {}
        /\ cq = [i \in Ids |-> 0] /\ sq = [i \in Ids |-> 0] /\ tout = {}
        /\ ctl = [steps |-> 0, ndisc |-> 0, bad |-> FALSE]
        /\ hist = <<>>

Can == MaxSteps = 0 \/ ctl.steps < MaxSteps
Rec(s) == hist' = IF Export THEN hist \o s ELSE hist
\* MaxSteps = 0 means unbounded (liveness configurations): the step counter then stands still so that the state space stays finite
Tick == ctl' = IF MaxSteps = 0 THEN ctl ELSE [ctl EXCEPT !.steps = @ + 1]

(***************************************************************************)
(* NetcodeClientTransport::update + send_packets (client.rs:84-165)        *)
(***************************************************************************)
\* what the client's netcode layer does with the datagrams that reached it
\* in arrival order: the server emits a challenge before a keep-alive and its disconnect datagram after everything else, so
\* datagrams that arrive together can complete the handshake and end the session in one update
ClientRecv(state, d) ==
    LET a == IF "chal" \in d /\ state = "req" THEN "resp" ELSE state
        b == IF "denied" \in d /\ a \in {"req", "resp"} THEN "disc" ELSE a
        c == IF "ka" \in d /\ b = "resp" THEN "conn" ELSE b
    IN IF "disconnect" \in d /\ c = "conn" THEN "disc" ELSE c

\* TimeoutSteps = 0 switches the time-outs off (used to show that the liveness property needs them); the counters saturate
Cap(x) == IF x > TimeoutSteps THEN TimeoutSteps ELSE x

\* does one of the datagrams refresh last_packet_received_time of a client in this state (client.rs:208-243) ?
ClientFresh(state, d) == \/ ("chal" \in d /\ state = "req")
                         \/ ("ka" \in d /\ state \in {"resp", "conn"})
                         \/ ("payload" \in d /\ state = "conn")

\* what the relay did with the datagrams queued towards an endpoint since its last step: "pass" (they reach its socket),
\* "drop", or "hold" (no relay action yet: they stay queued; the closed model never holds, recorded traces may)
ClientStep(i, mode) ==
    /\ Can
    /\ LET arrived == IF mode = "pass" THEN down[i] ELSE {} IN
       IF cn[i] = "disc" THEN
            \* netcode already disconnected: the renet client is marked disconnected, nothing else happens
            /\ cr' = [cr EXCEPT ![i] = "disc"] /\ UNCHANGED <<cn, up, cq, tout>>
       ELSE IF cr[i] = "disc" THEN
            \* the application disconnected the renet client: netcode disconnects and tells the server
            /\ cn' = [cn EXCEPT ![i] = "disc"] /\ up' = [up EXCEPT ![i] = @ \cup {"disconnect"}] /\ UNCHANGED <<cr, cq, tout>>
       ELSE LET status == IF cn[i] = "conn" THEN "connected" ELSE "connecting"
                st0 == ClientRecv(cn[i], arrived)
                \* packets are processed at the old clock, then netcode_client.update(duration) advances it and checks the time-out
                age == IF TimeoutSteps = 0 THEN 0 ELSE IF ClientFresh(cn[i], arrived) THEN 1 ELSE Cap(cq[i] + 1)
                timedOut == TimeoutSteps > 0 /\ st0 # "disc" /\ age >= TimeoutSteps
                st1 == IF timedOut THEN "disc" ELSE st0
                out == CASE st1 = "req" -> {"req"} [] st1 = "resp" -> {"resp"} [] st1 = "conn" -> {"ka", "payload"} [] OTHER -> {}
            IN /\ cr' = [cr EXCEPT ![i] = status]
               /\ cn' = [cn EXCEPT ![i] = st1]
               /\ up' = [up EXCEPT ![i] = @ \cup out]
               /\ cq' = [cq EXCEPT ![i] = age]
               /\ tout' = IF timedOut THEN tout \cup {i} ELSE tout
    /\ down' = [down EXCEPT ![i] = IF mode = "hold" THEN @ ELSE {}]
    /\ Rec(<<[a |-> "relay", c |-> i, dir |-> "down", ops |-> <<mode>>], [a |-> "cstep", c |-> i, dt |-> StepDt]>>)
    /\ Tick /\ UNCHANGED <<sn, sr, evq, seen, asked, sq>>

(***************************************************************************)
(* NetcodeServerTransport::update + send_packets (server.rs:114-169)       *)
(***************************************************************************)
\* one id: datagrams processed, then update_client, then the renet disconnections are pushed down
ServerOne(i, arrived, s) ==
    LET \* process_packet results, in arrival order: a client sends its disconnect datagram after everything else, so a
        \* response and a disconnect that arrive together first complete the handshake and then end the session
        n1a == IF s.sn[i] = "pending" /\ "resp" \in arrived THEN "conn"
               ELSE IF s.sn[i] = "none" /\ "req" \in arrived THEN "pending"
               ELSE s.sn[i]
        connected == s.sn[i] # "conn" /\ n1a = "conn"
        n1 == IF n1a = "conn" /\ "disconnect" \in arrived THEN "none" ELSE n1a
        peerLeft == n1a = "conn" /\ n1 = "none"
        \* add_connection / remove_connection with their events
        r1 == IF peerLeft THEN "absent" ELSE IF connected THEN "conn" ELSE s.sr[i]
        ev1 == (IF connected THEN <<[type |-> "Connected", id |-> i]>> ELSE <<>>)
               \o (IF peerLeft /\ (connected \/ s.sr[i] # "absent") THEN <<[type |-> "Disconnected", id |-> i]>> ELSE <<>>)
        \* update_client: the clock was advanced before the datagrams were processed, so a client heard in this update has age 0;
        \* a connected client that stayed silent for TimeoutSteps updates is told to go and removed from both layers
        age == IF TimeoutSteps = 0 \/ connected \/ (s.sn[i] = "conn" /\ arrived \cap {"ka", "payload"} # {}) THEN 0 ELSE Cap(s.sq[i] + 1)
        timedOut == TimeoutSteps > 0 /\ n1 = "conn" /\ age >= TimeoutSteps
        n1t == IF timedOut THEN "none" ELSE n1
        r1t == IF timedOut THEN "absent" ELSE r1
        ev1t == IF timedOut /\ r1 # "absent" THEN <<[type |-> "Disconnected", id |-> i]>> ELSE <<>>
        \* for disconnection_id in server.disconnections_id(): netcode.disconnect -> ClientDisconnected -> remove_connection
        push == r1t = "disc"
        n2 == IF push THEN "none" ELSE n1t
        r2 == IF push THEN "absent" ELSE r1t
        ev2 == IF push THEN <<[type |-> "Disconnected", id |-> i]>> ELSE <<>>
        out == (IF s.sn[i] = "none" /\ n1 = "pending" THEN {"chal"} ELSE {})
               \cup (IF s.sn[i] = "pending" /\ "req" \in arrived /\ n1 = "pending" THEN {"chal"} ELSE {})
               \* update_client sends the keep-alive that is due before the renet disconnections are pushed down; payloads are
               \* generated afterwards, for the sessions that are left
               \cup (IF n1t = "conn" THEN {"ka"} ELSE {})
               \cup (IF n2 = "conn" THEN {"payload"} ELSE {})
               \cup (IF push \/ timedOut THEN {"disconnect"} ELSE {})
    IN [sn |-> [s.sn EXCEPT ![i] = n2], sr |-> [s.sr EXCEPT ![i] = r2], evq |-> s.evq \o ev1 \o ev1t \o ev2,
        down |-> [s.down EXCEPT ![i] = @ \cup out], sq |-> [s.sq EXCEPT ![i] = IF n2 = "conn" THEN age ELSE 0],
        tout |-> IF timedOut THEN s.tout \cup {i} ELSE s.tout]

RECURSIVE ServerAll(_, _, _)
ServerAll(ids, mode, s) ==
    IF ids = {} THEN s
    ELSE LET i == CHOOSE x \in ids : TRUE IN
         ServerAll(ids \ {i}, mode, ServerOne(i, IF mode[i] = "pass" THEN up[i] ELSE {}, s))

ServerStep(mode) ==
    /\ Can
    /\ LET s == ServerAll(Ids, mode, [sn |-> sn, sr |-> sr, evq |-> evq, down |-> down, sq |-> sq, tout |-> tout]) IN
       /\ sn' = s.sn /\ sr' = s.sr /\ evq' = s.evq /\ down' = s.down /\ sq' = s.sq /\ tout' = s.tout
    /\ up' = [i \in Ids |-> IF mode[i] = "hold" THEN up[i] ELSE {}]
    /\ Rec([k \in 1..Cardinality(Ids) |->
              LET i == CHOOSE x \in Ids : Cardinality({y \in Ids : y < x}) = k - 1 IN
              [a |-> "relay", c |-> i, dir |-> "up", ops |-> <<mode[i]>>]]
           \o <<[a |-> "sstep", dt |-> StepDt]>>)
    /\ Tick /\ UNCHANGED <<cn, cr, seen, asked, cq>>

\* the application reads one server event: they must alternate per id
ReadEvent ==
    /\ evq # <<>>
    /\ LET e == Head(evq) IN
       /\ ctl' = [ctl EXCEPT !.bad = @ \/ (e.type = "Connected" /\ seen[e.id]) \/ (e.type = "Disconnected" /\ ~seen[e.id])]
       /\ seen' = [seen EXCEPT ![e.id] = (e.type = "Connected")]
    /\ evq' = Tail(evq)
    /\ UNCHANGED <<sn, sr, cn, cr, up, down, asked, cq, sq, tout, hist>>

\* application initiated disconnects (RenetServer::disconnect, RenetClient::disconnect, transport.disconnect())
Disc(i, who) ==
    /\ Can /\ ctl.ndisc < MaxDisc /\ i \notin asked
    /\ CASE who = "server" -> /\ sr[i] = "conn" /\ sr' = [sr EXCEPT ![i] = "disc"] /\ UNCHANGED <<cr, cn, up>>
         [] who = "client" -> /\ cr[i] # "disc" /\ cr' = [cr EXCEPT ![i] = "disc"] /\ UNCHANGED <<sr, cn, up>>
         [] who = "client_transport" -> /\ cn[i] # "disc" /\ cn' = [cn EXCEPT ![i] = "disc"]
                                        /\ up' = [up EXCEPT ![i] = @ \cup {"disconnect"}] /\ UNCHANGED <<sr, cr>>
    /\ asked' = asked \cup {i}
    /\ ctl' = [ctl EXCEPT !.steps = IF MaxSteps = 0 THEN @ ELSE @ + 1, !.ndisc = @ + 1]
    /\ Rec(<<[a |-> "disc", c |-> i, who |-> who]>>)
    /\ UNCHANGED <<sn, down, evq, seen, cq, sq, tout>>

Next == \/ \E i \in Ids : \E mode \in {"pass", "drop"} : ClientStep(i, mode)
        \/ \E mode \in [Ids -> {"pass", "drop"}] : ServerStep(mode)
        \/ ReadEvent
        \/ \E i \in Ids : \E who \in {"server", "client", "client_transport"} : Disc(i, who)

Spec == Init /\ [][Next]_vars

\* C20_LockStep: the message layer lists exactly the ids whose handshake completed and has not ended -- modulo the
\* connections the application disconnected, which the next server update removes from both layers
LockStep == \A i \in Ids : /\ (sr[i] = "conn" => sn[i] = "conn")
                           /\ (sn[i] = "conn" => sr[i] \in {"conn", "disc"})
\* C20_EventsOnce
EventsOnce == ~ctl.bad
\* nothing disconnects unless somebody asked for it or an endpoint heard nothing for a whole time-out: interference alone
\* never disconnects (C20_OnlyTimeouts)
OnlyAsked == \A i \in Ids : (i \notin asked \cup tout) => (cn[i] # "disc" /\ cr[i] # "disc" /\ sr[i] # "disc")
\* a time-out fires only after TimeoutSteps silent updates, and a connected session whose datagrams all pass is never timed out
NoEarlyTimeout == \A i \in Ids : cq[i] <= TimeoutSteps /\ sq[i] <= TimeoutSteps

(***************************************************************************)
(* Liveness (C20: "a disconnect decided by either layer or either side     *)
(* ends the session on both sides"), checked by TLC under weak fairness of *)
(* the steps of every endpoint, whatever the relay does -- it may drop     *)
(* every datagram for ever: the time-outs then end the other half.         *)
(***************************************************************************)
Fairness == /\ \A i \in Ids : WF_vars(\E mode \in {"pass", "drop"} : ClientStep(i, mode))
            /\ WF_vars(\E mode \in [Ids -> {"pass", "drop"}] : ServerStep(mode))
            /\ WF_vars(ReadEvent)
LiveSpec == Init /\ [][Next]_vars /\ Fairness
Ended(i) == sn[i] # "conn" /\ sr[i] = "absent" /\ cn[i] = "disc" /\ cr[i] = "disc"
EndsOnBothSides == \A i \in Ids : (i \in asked \cup tout) ~> Ended(i)
\* and the application hears about every session it was told about: a Connected event is eventually followed by its Disconnected
EventsComplete == \A i \in Ids : (i \in asked \cup tout) ~> (evq = <<>> /\ ~seen[i])

Done == ctl.steps = MaxSteps
ExportInv == (Export /\ Done /\ RandomElement(1..ExportOneIn) = 1) => PrintT(<<"PATH", ToJson([done |-> TRUE, steps |-> hist])>>)
ExportCfg == PrintT(<<"CFG", ToJson([clients |-> <<1, 2>>, max_clients |-> 4, timeout_s |-> TimeoutS, step_dt |-> StepDt, allow_timeouts |-> (TimeoutSteps <= MaxSteps)])>>)
ASSUME ExportCfg
\* the silence counters cannot matter when no time-out is reachable within MaxSteps
View == IF TimeoutSteps > MaxSteps THEN <<sn, sr, cn, cr, up, down, evq, seen, asked, ctl>>
        ELSE <<sn, sr, cn, cr, up, down, evq, seen, asked, cq, sq, tout, ctl>>
=============================================================================
