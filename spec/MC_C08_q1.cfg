\* C08 quick: two small messages, 2+2 flushes, acks and acks of acks, any loss
SPECIFICATION Spec
CONSTANTS
  ChSC <- Ch_RO
  ChCS <- Ch_RO
  Budget = 60000
  Workload <- WL_RO_two_small
  MaxFlushS = 2
  MaxFlushC = 2
  MaxTicks = 0
  Dts = {300}
  MaxDeliver = 1
  HealDt = 300
  HealRounds = 3
  Bound = 3
  HealLose = {TRUE, FALSE}
  Reorder = TRUE
  RecvAnywhere = FALSE
  PropsOn <- P_C08
  MaxHostile = 0
  HostileSet = "none"
  ExportAll = TRUE
  Export = TRUE
INVARIANT NoFlag
INVARIANT ExportInv
VIEW View
CHECK_DEADLOCK FALSE
