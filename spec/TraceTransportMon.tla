---------------------------- MODULE TraceTransportMon ----------------------------
(***************************************************************************)
(* Monitor pass: replays an ndjson trace recorded from the real code (or   *)
(* exported from the model) through the observer, one TLC state per event. *)
(* The spec is total; a property failure is not a TLC error but is printed *)
(* as a line  <<"FLAG", run, i, flags>>  and the rest of that run is       *)
(* skipped, so one TLC invocation judges thousands of runs and never has   *)
(* to print a 50 000 state counterexample.                                 *)
(***************************************************************************)
EXTENDS TransportObs, Json, IOUtils

Rec == ndJsonDeserialize(IOEnv.TRACE)

VARIABLES l, obs, skip, cov

vars == <<l, obs, skip, cov>>

Init == /\ l = 1
        /\ obs = ObsInit
        /\ skip = FALSE
        /\ cov = [runs |-> 0, flagged |-> 0, events |-> 0]

Next == /\ l <= Len(Rec)
        /\ l' = l + 1
        /\ LET e == Rec[l] IN
           IF e.ev = "reset"
           THEN /\ obs' = TLCEval(ObsStep(obs, e))
                /\ skip' = FALSE
                /\ cov' = [cov EXCEPT !.runs = @ + 1]
           ELSE IF skip
           THEN UNCHANGED <<obs, skip, cov>>
           ELSE LET o1 == TLCEval(ObsStep(obs, e)) IN
                /\ obs' = o1
                /\ skip' = (o1.flags # {})
                /\ cov' = [cov EXCEPT !.events = @ + 1, !.flagged = IF o1.flags # {} THEN @ + 1 ELSE @]
                /\ (o1.flags = {} \/ PrintT(<<"FLAG", ToJson([run |-> e.run, i |-> e.i, ev |-> e.ev, flags |-> o1.flags, detail |-> ToString(Detail(o1, e)), cause |-> Cause(obs, e)])>>))

Spec == Init /\ [][Next]_vars

\* the trace is linear: the position identifies the state, so fingerprinting the observer history is wasted work
View == l

\* the whole file was consumed
Consumed == TLCGet("stats").diameter = Len(Rec) + 1

\* printed once, in the final state
Done == l <= Len(Rec) \/ PrintT(<<"COV", ToJson(cov)>>)
=============================================================================
