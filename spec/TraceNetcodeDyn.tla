--------------------------- MODULE TraceNetcodeDyn ---------------------------
(***************************************************************************)
(* Strict pass for netcode traces of ANY schedule (generated histories as  *)
(* well as behaviours exported from MC_Netcode): the tokens and clients of *)
(* a run are not constants of a configuration but are read from the        *)
(* `token` / `client` events of the trace itself.  Netcode.tla is a        *)
(* constant module (no variables), so its constant parameters may be       *)
(* instantiated with state functions: Tokens <- the tokens issued so far   *)
(* in this run, Clients <- the clients created so far.                     *)
(*                                                                         *)
(* Every recorded call must then be the event the corresponding operator   *)
(* of Netcode.tla produces from the model state reached so far (result,    *)
(* reply datagram, table snapshot, client status).  A mismatch is DRIFT.   *)
(* The comparison is with the code as it is: TokenSingleUse = FALSE (known *)
(* finding D18).                                                           *)
(***************************************************************************)
EXTENDS Integers, Sequences, FiniteSets, TLC, Json, IOUtils

Rec == ndJsonDeserialize(IOEnv.TRACE)

VARIABLES l, w, toks, clis, nsa, skip, cnt
vars == <<l, w, toks, clis, nsa, skip, cnt>>

N == INSTANCE Netcode WITH Tokens <- toks, Clients <- clis, MaxClients0 <- 0, ServerAddrs <- nsa, TokenTable <- 2048, TokenSingleUse <- FALSE

World0(maxc, start, secure) ==
    [secure |-> secure, slots |-> [i \in 1..maxc |-> N!NoConn], pending |-> <<>>, entries |-> <<>>, maxc |-> maxc, chalSeq |-> 0, gseq |-> N!GBASE, now |-> start,
     cl |-> <<>>, consumed |-> {}, net |-> <<>>, pres |-> <<>>]

Init == /\ l = 1 /\ w = World0(1, 0, TRUE) /\ toks = <<>> /\ clis = <<>> /\ nsa = 1 /\ skip = FALSE
        /\ cnt = [runs |-> 0, matched |-> 0, drift |-> 0, accepted |-> 0, unmodelled |-> 0]

\* the parts of a datagram description both sides can know
DView(d) == IF d.kind = "None" THEN [kind |-> "None"]
            ELSE [kind |-> d.kind, key |-> d.key, proto |-> d.proto, seq |-> d.seq, len |-> d.len, tok |-> d.tok, cseq |-> d.cseq, cid |-> d.cid,
                  cud |-> d.cud, ptag |-> IF d.plen < 4 THEN 0 ELSE d.ptag,    \* the first four content bytes spell the tag: shorter payloads cannot tell tags apart
                  plen |-> d.plen, to |-> d.to]
OutsView(outs) == [i \in 1..Len(outs) |-> [type |-> outs[i].type, id |-> outs[i].id, addr |-> outs[i].addr, for |-> outs[i].for, d |-> DView(outs[i].d)]]

\* A presented datagram as the model sees it.  The generator marks the bit flips that no key binds (the sequence-length nibble
\* of a request's prefix byte, which the decoder ignores): such a datagram is as good as the original.
Norm(d) == [d EXCEPT !.intact = @ \/ ("benign" \in DOMAIN d /\ d.benign)]

\* datagrams the model itself emitted are referred to by their emission number; anything else (crafted, raw bytes) is 0
EmitNo(e) == IF e.d.emit >= 1 /\ e.d.emit <= Len(w.net) THEN e.d.emit ELSE 0

Predict(e) ==
    CASE e.ev = "sdeliver" ->
            LET r == N!ServerProcess(w, e.from, Norm(e.d))
                k == EmitNo(e)
                right == k # 0 /\ e.from = N!OriginAddr(w, w.net[k]) /\ e.d.label \in {"genuine", "replay"}
                w1 == [r.w EXCEPT !.pres = IF right THEN N!Put(@, k, N!Get(@, k, 0) + 1) ELSE @]
            IN [w |-> w1, v |-> [res |-> r.res, reply |-> DView(r.reply), snap1 |-> N!Snap(w1)]]
      [] e.ev = "cdeliver" ->
            LET r == N!ClientProcess(w.cl[e.c], Norm(e.d))
                k == EmitNo(e)
                w1 == [w EXCEPT !.cl[e.c] = r.x, !.pres = IF k # 0 /\ e.d.label \in {"genuine", "replay"} THEN N!Put(@, k, N!Get(@, k, 0) + 1) ELSE @]
            IN [w |-> w1, v |-> [res |-> [some |-> r.some, ptag |-> IF r.some THEN e.d.ptag ELSE 0, plen |-> IF r.some THEN e.d.plen ELSE 0],
                                 cs1 |-> N!CSnap(w1, e.c)]]
      [] e.ev = "cupdate" -> LET r == N!DoCUpdate(w, e.c, e.dt) IN [w |-> r.w, v |-> [out |-> DView(r.ev.out), cs1 |-> r.ev.cs1]]
      [] e.ev = "supdate" -> LET r == N!DoSUpdate(w, e.dt) IN [w |-> r.w, v |-> [outs |-> OutsView(r.ev.outs), snap1 |-> r.ev.snap1]]
      [] e.ev = "cpayload" -> LET r == N!DoCPayload(w, e.c, e.ptag, e.plen) IN [w |-> r.w, v |-> [ok |-> r.ev.ok, d |-> DView(r.ev.d)]]
      [] e.ev = "spayload" -> LET r == N!DoSPayload(w, e.id, e.ptag, e.plen) IN [w |-> r.w, v |-> [ok |-> r.ev.ok, d |-> DView(r.ev.d), snap1 |-> r.ev.snap1]]
      [] e.ev = "sdisconnect" -> LET r == N!DoSDisconnect(w, e.id) IN [w |-> r.w, v |-> [res |-> r.ev.res, d |-> DView(r.ev.d), snap1 |-> r.ev.snap1]]
      [] e.ev = "cdisconnect" -> LET r == N!DoCDisconnect(w, e.c) IN [w |-> r.w, v |-> [d |-> DView(r.ev.d), cs1 |-> r.ev.cs1]]
      [] e.ev = "setmax" -> LET r == N!DoSetMax(w, e.n) IN [w |-> r.w, v |-> [snap1 |-> r.ev.snap1]]

Recorded(e) ==
    CASE e.ev = "sdeliver" -> [res |-> e.res, reply |-> DView(e.reply), snap1 |-> e.snap1]
      [] e.ev = "cdeliver" -> [res |-> e.res, cs1 |-> e.cs1]
      [] e.ev = "cupdate" -> [out |-> DView(e.out), cs1 |-> e.cs1]
      [] e.ev = "supdate" -> [outs |-> OutsView(e.outs), snap1 |-> e.snap1]
      [] e.ev = "cpayload" -> [ok |-> e.ok, d |-> DView(e.d)]
      [] e.ev = "spayload" -> [ok |-> e.ok, d |-> DView(e.d), snap1 |-> e.snap1]
      [] e.ev = "sdisconnect" -> [res |-> e.res, d |-> DView(e.d), snap1 |-> e.snap1]
      [] e.ev = "cdisconnect" -> [d |-> DView(e.d), cs1 |-> e.cs1]
      [] e.ev = "setmax" -> [snap1 |-> e.snap1]

Known(e) == e.ev \in {"sdeliver", "cdeliver", "cupdate", "supdate", "cpayload", "spayload", "sdisconnect", "cdisconnect", "setmax"}
OfClient(e) == e.ev \in {"cdeliver", "cupdate", "cpayload", "cdisconnect"}

\* a token as issued by the harness (the event carries the model's view of it)
TokenOf(e) == [id |-> e.id, ud |-> e.ud, hosts |-> {e.hosts[i] : i \in 1..Len(e.hosts)}, hostseq |-> e.hosts, create |-> e.create, expire |-> e.expire,
               timeout |-> e.timeout, sealed |-> e.sealed, proto |-> e.proto, tamper |-> e.tamper, ok |-> e.ok,
               cproto |-> IF "cproto" \in DOMAIN e THEN e.cproto ELSE e.proto]
\* NetcodeClient::new (client.rs): Req state on the first server address, clocks at the creation instant
ClientOf(e) == [state |-> "Req", reason |-> "None", tok |-> e.t, addr |-> e.addr, seq |-> 0, cseq |-> 0, ccid |-> 0, ccud |-> 0,
                lastSend |-> 0 - 1, lastRecv |-> e.cs1.t, now |-> e.cs1.t, start |-> e.cs1.t, hostIdx |-> 1, win |-> {}, winMax |-> 0]

Stop(why, e) == /\ skip' = TRUE /\ cnt' = [cnt EXCEPT !.unmodelled = @ + 1] /\ UNCHANGED <<w, toks, clis, nsa>>

Next == /\ l <= Len(Rec)
        /\ l' = l + 1
        /\ LET e == Rec[l] IN
           IF e.ev = "reset"
           THEN /\ w' = World0(e.cfg.max_clients, e.cfg.start_ms, IF "secure" \in DOMAIN e.cfg THEN e.cfg.secure ELSE TRUE) /\ toks' = <<>> /\ clis' = <<>> /\ nsa' = e.cfg.server_addrs /\ skip' = FALSE
                /\ cnt' = [cnt EXCEPT !.runs = @ + 1, !.accepted = IF ~skip /\ cnt.runs > 0 THEN @ + 1 ELSE @]
           ELSE IF skip THEN UNCHANGED <<w, toks, clis, nsa, skip, cnt>>
           ELSE IF e.ev = "token"
           THEN /\ toks' = N!Put(toks, e.t, TokenOf(e)) /\ UNCHANGED <<w, clis, nsa, skip, cnt>>
           ELSE IF e.ev = "client"
           THEN IF e.res = "ok" /\ e.t \in DOMAIN toks
                THEN /\ clis' = N!Put(clis, e.c, [tok |-> e.t, addr |-> e.addr])
                     /\ w' = [w EXCEPT !.cl = N!Put(@, e.c, ClientOf(e))]
                     /\ UNCHANGED <<toks, nsa, skip, cnt>>
                ELSE UNCHANGED <<w, toks, clis, nsa, skip, cnt>>
           ELSE IF ~Known(e) THEN UNCHANGED <<w, toks, clis, nsa, skip, cnt>>
           ELSE IF OfClient(e) /\ e.c \notin DOMAIN w.cl THEN UNCHANGED <<w, toks, clis, nsa, skip, cnt>>
           ELSE LET p == Predict(e)
                    rec == Recorded(e)
                    d == {f \in DOMAIN rec : p.v[f] # rec[f]}
                IN IF d = {}
                   THEN /\ w' = TLCEval(p.w) /\ skip' = FALSE /\ cnt' = [cnt EXCEPT !.matched = @ + 1] /\ UNCHANGED <<toks, clis, nsa>>
                   ELSE /\ skip' = TRUE /\ cnt' = [cnt EXCEPT !.drift = @ + 1] /\ UNCHANGED <<w, toks, clis, nsa>>
                        /\ PrintT(<<"DRIFT", ToJson([run |-> e.run, i |-> e.i, ev |-> e.ev, fields |-> d,
                                                     pred |-> ToString([f \in d |-> p.v[f]]), got |-> ToString([f \in d |-> rec[f]])])>>)

Spec == Init /\ [][Next]_vars
Consumed == TLCGet("stats").diameter = Len(Rec) + 1
Done == l <= Len(Rec) \/ PrintT(<<"STRICT", ToJson([cnt EXCEPT !.accepted = IF ~skip /\ cnt.runs > 0 THEN @ + 1 ELSE @])>>)
=============================================================================
