\* C18 bounded liveness on the model with a busy server application: one honest client (token timeout 5 s); a fault phase of up
\* to 6 steps in which each handshake datagram may be lost, delayed or duplicated (100 ms ticks); at any point the network heals
\* and good rounds of 100 ms follow in which the server application sends a payload to the client's id EVERY round (shorter than
\* the 250 ms send rate: payloads must not starve the keep-alive an unconfirmed client is waiting for, defect D20):
\* the client must be connected on both sides after Bound = 2 (2 ceil(250/100) + 2) + 4 = 20 rounds.
SPECIFICATION Spec
CONSTANTS
  Tokens <- Toks_one
  Clients <- Clis_one
  MaxClients0 = 1
  ServerAddrs = 1
  TokenSingleUse = TRUE
  TokenTable = 2048
  MaxSteps = 6
  Addrs = {1}
  Dts = {100}
  CraftToks = {}
  MaxPresent = 2
  Calls = {"client", "time", "deliver"}
  PumpPay = TRUE
  HealRounds = 20
  HealDt = 100
  Bound = 20
  PropsOn <- P_LIVE
  Export = TRUE
  ExportAll = FALSE
  ExportOneIn = 3
INVARIANT NoFlag
INVARIANT ExportInv
VIEW View
CHECK_DEADLOCK FALSE
