--------------------------- MODULE MC_WireContract ---------------------------
(***************************************************************************)
(* add_pending_ack as a FUNCTION, against a declarative contract, for      *)
(* EVERY well-formed range list (not only the reachable ones of MC_Wire)   *)
(* over 0..N and every arriving sequence number:                           *)
(*                                                                         *)
(*   AddPend(pend, q) = the newest ACKCAP maximal runs of                  *)
(*                      RangeSet(pend) \cup {q}                            *)
(*                                                                         *)
(* i.e. the list stays the canonical (sorted, disjoint, non-adjacent)      *)
(* description of a set, nothing that did not arrive is ever denoted       *)
(* (C08: never acknowledges a sequence number it did not receive), and     *)
(* what is forgotten when the cap is exceeded is exactly the oldest run    *)
(* (C16: "the newest 64 ranges of it").  Likewise acked_largest:           *)
(*   RangeSet(AckedLargest(pend, a)) = RangeSet(pend) \ 0..a               *)
(* and the codec: Decode(Encode(r)) = r for every such list.  One TLC      *)
(* state per (list, q) pair; the transcriptions checked here are the ones  *)
(* the strict pass binds to the code (Renet.tla: AddPend, AckedLargest;    *)
(* MC_Wire.tla: EncodeAck, DecodeAck).                                     *)
(***************************************************************************)
EXTENDS MC_Wire

CONSTANT N

VARIABLES lst, q
cvars == <<lst, q, pend, rcvd, n>>     \* pend, rcvd, n: the variables of MC_Wire, unused here

\* canonical list of the maximal runs of a finite set of naturals, ascending, ranges <<lo, hi>> with hi exclusive
RECURSIVE Canon(_)
Canon(S) ==
    IF S = {} THEN <<>>
    ELSE LET lo == CHOOSE x \in S : \A y \in S : x <= y
             hi == CHOOSE h \in lo..(N + 2) : (\A z \in lo..(h - 1) : z \in S) /\ h \notin S
         IN <<<<lo, hi>>>> \o Canon({x \in S : x >= hi})

LastN(s, k) == IF Len(s) <= k THEN s ELSE SubSeq(s, Len(s) - k + 1, Len(s))

AllLists == {Canon(S) : S \in SUBSET (0..N)}

CInit == /\ lst \in {r \in AllLists : Len(r) <= ACKCAP}
         /\ q \in 0..N
         /\ pend = <<>> /\ rcvd = {} /\ n = 0
CNext == UNCHANGED cvars
CSpec == CInit /\ [][CNext]_cvars

AddContract == AddPend(lst, q) = LastN(Canon(RangeSet(lst) \cup {q}), ACKCAP)
AckedContract == LET r == AckedLargest(lst, q) IN
                 /\ RangeSet(r) = RangeSet(lst) \ (0..q)
                 /\ WellFormed(r)
CodecContract == lst # <<>> => DecodeAck(EncodeAck(lst)) = lst
Cap4 == 4
Cap2 == 2
Cap1 == 1
=============================================================================
