\* C01 thorough 2: a small and a 2-slice message, two flushes per side and two ticks shorter (100 ms) or longer (400 ms) than the resend time, each packet delivered at most once,
\* any order; then everything in flight is lost, and good rounds follow (retransmission decisions depend on the tick lengths).
SPECIFICATION Spec
CONSTANTS
  ChSC <- Ch_RO
  ChCS <- Ch_RO
  SeqBase = 0
  MidBase = 0
  Budget = 60000
  Workload <- WL_RO_small_sliced
  MaxFlushS = 2
  MaxFlushC = 2
  MaxTicks = 2
  Dts = {100, 400}
  MaxDeliver = 1
  HealDt = 300
  HealRounds = 3
  Bound = 3
  HealLose = {TRUE}
  Reorder = TRUE
  RecvAnywhere = FALSE
  PropsOn <- P_C01
  MaxHostile = 0
  HostileSet = "none"
  ExportAll = FALSE
  Export = TRUE
INVARIANT NoFlag
INVARIANT ExportInv
VIEW View
CHECK_DEADLOCK FALSE
