\* C18 bounded liveness on the model: one honest client (token timeout 5 s); a fault phase of up to 6 steps in which each
\* handshake datagram may be lost, delayed or duplicated and client and server clocks advance independently (250 ms ticks);
\* at any point the network heals and 12 good rounds follow: the client must be connected on both sides after
\* Bound = 2 (2 ceil(250/dt) + 2) + 4 = 12 rounds (C18_Connects), the table clauses of C10 / C17 hold throughout.
SPECIFICATION Spec
CONSTANTS
  Tokens <- Toks_one
  Clients <- Clis_one
  MaxClients0 = 1
  ServerAddrs = 1
  TokenSingleUse = TRUE
  TokenTable = 2048
  MaxSteps = 6
  Addrs = {1}
  Dts = {250}
  CraftToks = {}
  MaxPresent = 2
  Calls = {"client", "time", "deliver"}
  PumpPay = FALSE
  HealRounds = 12
  HealDt = 250
  Bound = 12
  PropsOn <- P_LIVE
  Export = TRUE
  ExportAll = FALSE
  ExportOneIn = 3
INVARIANT NoFlag
INVARIANT ExportInv
VIEW View
CHECK_DEADLOCK FALSE
