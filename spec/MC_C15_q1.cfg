\* C15 quick: one small message, ticks of 100 and 300 ms against resend 300
SPECIFICATION Spec
CONSTANTS
  ChSC <- Ch_RO
  ChCS <- Ch_RO
  SeqBase = 0
  MidBase = 0
  Budget = 60000
  Workload <- WL_one_small
  MaxFlushS = 1
  MaxFlushC = 3
  MaxTicks = 2
  Dts = {100, 300}
  MaxDeliver = 1
  HealDt = 300
  HealRounds = 1
  Bound <- NoBound
  HealLose = {TRUE}
  Reorder = FALSE
  RecvAnywhere = FALSE
  PropsOn <- P_C15
  MaxHostile = 0
  HostileSet = "none"
  ExportAll = TRUE
  Export = TRUE
INVARIANT NoFlag
INVARIANT ExportInv
VIEW View
CHECK_DEADLOCK FALSE
