------------------------------ MODULE NetcodeObs ------------------------------
(***************************************************************************)
(* Observer for the netcode layer (renetcode): a pure function from the    *)
(* observer state and one API-level event (NetcodeServer / NetcodeClient   *)
(* call with its abstract datagram, result and table snapshot) to the next *)
(* observer state.  Evaluates the clauses of C04 C05 C07 C10 C13 C17 C18   *)
(* C19; a failed clause is recorded in o.flags as <<property, clause>>.    *)
(*                                                                         *)
(* Datagrams are abstract records produced by the harness with the keys it *)
(* issued (or by the model): kind, key ("c2s:T" / "s2c:T" / "none"), proto,*)
(* seq, len, tok, challenge (cseq, cid, cud), payload (ptag, plen), emit   *)
(* (emission index), label (genuine / replay / readdressed / mutated /     *)
(* truncated / padded / crafted / garbage), nonauth (ground truth of the   *)
(* generator where it knows the datagram is not authentic).                *)
(***************************************************************************)
EXTENDS Integers, Sequences, FiniteSets, TLC

WINDOW == 256
MAXDGRAM == 1400
Get(f, k, d) == IF k \in DOMAIN f THEN f[k] ELSE d
Put(f, k, v) == TLCEval([x \in (DOMAIN f) \cup {k} |-> IF x = k THEN v ELSE f[x]])
Range(s) == {s[i] : i \in DOMAIN s}
Max2(a, b) == IF a > b THEN a ELSE b

ObsInit == [cfg |-> [props |-> <<>>, max_clients |-> 0, server_addrs |-> 1], tok |-> <<>>, cli |-> <<>>,
            nonce |-> <<>>, surfS |-> {}, surfC |-> {}, maxSeen |-> <<>>, reqs |-> {}, chals |-> {}, conn |-> <<>>,
            sess |-> <<>>, ended |-> {}, bind |-> <<>>, lastPending |-> <<>>, lowered |-> FALSE, lastAuthS |-> <<>>, lastAuthC |-> <<>>, loS |-> <<>>, loC |-> <<>>, heal |-> [on |-> FALSE, bound |-> 0 - 1, rounds |-> 0, cs |-> <<>>],
            flags |-> {}]

ObsReset(cfg) == [ObsInit EXCEPT !.cfg = cfg]

Props(o) == Range(o.cfg.props)
Flag(o, F) == [o EXCEPT !.flags = @ \cup F]
FlagIf(o, c, f) == IF c THEN Flag(o, {f}) ELSE o

TokOfKey(key) == key   \* keys are named "c2s:T" / "s2c:T"; the harness also supplies d.tok = T

(***************************************************************************)
(* Tokens and clients                                                      *)
(***************************************************************************)
ObsToken(o, e) == [o EXCEPT !.tok = Put(@, e.t, [id |-> e.id, ud |-> e.ud, hosts |-> Range(e.hosts), create |-> e.create, expire |-> e.expire,
                                                 timeout |-> e.timeout, sealed |-> e.sealed, proto |-> e.proto, tamper |-> e.tamper, ok |-> e.ok])]

ObsClient(o, e) ==
    LET o1 == [o EXCEPT !.cli = Put(@, e.c, [tok |-> e.t, addr |-> e.addr, status |-> e.cs1.status, reason |-> e.cs1.reason, born |-> TRUE])]
    IN FlagIf(o1, e.res = "panic", <<"C07", "NoPanic">>)

\* ServerAuthentication::Unsecure (cfg.secure = FALSE): tokens are sealed with the all-zero key "Z", the host list is not checked
CfgSecure(o) == IF "secure" \in DOMAIN o.cfg THEN o.cfg.secure ELSE TRUE
\* a token the server must honour when presented at server time tsecs (seconds)
TokValid(o, t, tsecs) ==
    /\ t \in DOMAIN o.tok
    /\ LET T == o.tok[t] IN
       /\ T.ok /\ T.sealed = (IF CfgSecure(o) THEN "K" ELSE "Z") /\ T.proto = "P" /\ T.tamper = "none"
       /\ tsecs < T.expire
       /\ (CfgSecure(o) => \E h \in T.hosts : h >= 1 /\ h <= o.cfg.server_addrs)

PublicAddr(a) == a > 100

(***************************************************************************)
(* Emission bookkeeping: nonce uniqueness (C17), datagram size (C13)       *)
(***************************************************************************)
ObsEmit(o, d) ==
    IF d.kind = "None" THEN o ELSE
    LET sealed == d.key # "none" /\ d.kind \notin {"Garbage", "Request"}
        k == <<d.key, d.seq>>
        clash == sealed /\ k \in DOMAIN o.nonce /\ o.nonce[k] # d.h
        o1 == IF sealed /\ ~clash THEN [o EXCEPT !.nonce = Put(@, k, d.h)] ELSE o
        o2 == FlagIf(o1, clash, <<"C17", "NonceUnique">>)
    IN FlagIf(o2, d.len > MAXDGRAM, <<"C13", "Netcode">>)

\* is the presented datagram certainly not authentic for the session it addresses ?
NonAuth(o, d, atServer, from) ==
    \/ ("nonauth" \in DOMAIN d /\ d.nonauth)
    \/ d.label \in {"garbage"}
    \/ (d.label \in {"mutated", "truncated"} /\ d.kind # "Request")
    \/ (d.label = "replay" /\ d.kind \in {"KeepAlive", "Payload", "Disconnect"})
    \* a sealed datagram presented to the server from an address whose handshake was made with another token (to the
    \* server an address IS the peer: a relay that rewrites the source address consistently is not an attack; a client
    \* cannot tell to which address the server sent a datagram: there only the keys decide)
    \/ (atServer /\ d.kind \in {"KeepAlive", "Payload", "Disconnect", "Response", "Challenge", "Denied"} /\ d.key # "none"
          /\ Get(o.bind, from, "none") # d.tok)

(***************************************************************************)
(* Server table invariants (C10)                                           *)
(***************************************************************************)
SnapIds(s) == [i \in 1..Len(s.clients) |-> s.clients[i].id]
SnapAddrs(s) == [i \in 1..Len(s.clients) |-> s.clients[i].addr]
Injective(q) == \A i, j \in 1..Len(q) : i # j => q[i] # q[j]

TableOK(o, s) ==
    /\ Injective(SnapIds(s))
    /\ Injective(SnapAddrs(s))
    /\ s.n = Len(s.clients)

LookupsOK(o, s) ==
    \A i \in 1..Len(s.clients) :
        LET c == s.clients[i] IN
        c.id \in DOMAIN o.sess => (c.addr = o.sess[c.id].addr /\ c.ud = o.sess[c.id].ud /\ c.is)

\* everything but the ages
Frozen(s) == [clients |-> [i \in 1..Len(s.clients) |-> [id |-> s.clients[i].id, addr |-> s.clients[i].addr, ud |-> s.clients[i].ud]],
              n |-> s.n, max |-> s.max, pending |-> s.pending]

SnapCheck(o, e) ==
    LET s == e.snap1
        o1 == FlagIf(o, s.n >= 0 /\ ~TableOK(o, s), <<"C10", "Unique">>)
        o2 == FlagIf(o1, s.n >= 0 /\ ~o.lowered /\ s.n > s.max, <<"C10", "Bounded">>)
        o3 == FlagIf(o2, s.n >= 0 /\ ~LookupsOK(o, s), <<"C10", "Lookups">>)
        \* the ids the server lists are exactly those with a ClientConnected that no ClientDisconnected has matched yet
        o4 == FlagIf(o3, s.n >= 0 /\ {s.clients[i].id : i \in 1..Len(s.clients)} # DOMAIN o.sess, <<"C10", "EventsMatch">>)
    IN [o4 EXCEPT !.lastPending = s.pending]

\* ClientConnected / ClientDisconnected bookkeeping; r = result record, a = address it names
ObsConnEvent(o, r, now) ==
    IF r.type = "ClientConnected" THEN
        LET dup == r.id \in DOMAIN o.sess
            o1 == [o EXCEPT !.sess = Put(@, r.id, [addr |-> r.addr, ud |-> r.ud]), !.lastAuthS = Put(@, r.id, now), !.loS = Put(@, r.id, now)]
        IN FlagIf(o1, dup, <<"C10", "EventsMatch">>)
    ELSE IF r.type = "ClientDisconnected" THEN
        LET known == r.id \in DOMAIN o.sess
            same == known /\ o.sess[r.id].addr = r.addr
            \* the nonce scope of C17 is one connection attempt and the session that follows
            gone == {k \in DOMAIN o.nonce : \E t \in DOMAIN o.tok : o.tok[t].id = r.id /\ k[1] = "s2c:" \o t}
            o1 == [o EXCEPT !.sess = [x \in (DOMAIN @) \ {r.id} |-> @[x]],
                            !.ended = @ \cup {t \in DOMAIN o.tok : o.tok[t].id = r.id},
                            !.nonce = [k \in (DOMAIN @) \ gone |-> @[k]]]
        IN FlagIf(o1, ~known \/ ~same, <<"C10", "EventsMatch">>)
    ELSE o

(***************************************************************************)
(* Presenting a datagram to the server                                     *)
(***************************************************************************)
Secs(ms) == ms \div 1000

ObsSDeliver(o, e) ==
    LET d == e.d
        r == e.res
        now == e.snap0.t
        connectedAddrs == Range(SnapAddrs(e.snap0))
        unproven == e.from \notin connectedAddrs
        nonauth == NonAuth(o, d, TRUE, e.from)
        \* ---- C04: payloads ----
        nonceKey == <<d.key, d.seq>>
        T == IF d.tok \in DOMAIN o.tok THEN o.tok[d.tok] ELSE [id |-> 0 - 1, ud |-> 0 - 1, sealed |-> "F", proto |-> "Q", tamper |-> "x", ok |-> FALSE, expire |-> 0, hosts |-> {}, timeout |-> 0, create |-> 0]
        sessAddr == IF r.type = "Payload" /\ r.id \in DOMAIN o.sess THEN o.sess[r.id].addr ELSE 0 - 1
        authentic == /\ d.kind = "Payload" /\ d.intact /\ d.key = "c2s:" \o d.tok
                     /\ d.proto = "P" /\ T.id = r.id /\ r.ptag = d.ptag /\ r.plen = d.plen /\ sessAddr = e.from
        F4 == (IF r.type = "Payload" /\ ~authentic THEN {<<"C04", "Authentic">>} ELSE {})
              \cup (IF r.type = "Payload" /\ nonceKey \in o.surfS THEN {<<"C04", "Once">>} ELSE {})
              \cup (IF /\ d.kind = "Payload" /\ d.label = "genuine" /\ d.intact /\ d.org \in DOMAIN o.cli
                       /\ o.cli[d.org].status = "Connected" /\ T.id \in DOMAIN o.sess /\ o.sess[T.id].addr = e.from
                       /\ nonceKey \notin o.surfS
                       /\ d.seq + WINDOW > Get(o.maxSeen, <<d.key, "S">>, 0)
                       /\ r.type # "Payload"
                    THEN {<<"C04", "Accept">>, <<"C07", "StillAccepts">>} ELSE {})
        \* ---- C05: who may connect ----
        tsecs == Secs(now)
        reqOK(q) == q.addr = e.from /\ q.tok \in DOMAIN o.tok /\ o.tok[q.tok].id = r.id /\ o.tok[q.tok].ud = r.ud /\ q.valid
                    \* "already used from a different address": the server acted on (answered) an earlier request carrying it
                    /\ ~(\E q2 \in o.reqs : q2.tok = q.tok /\ q2.addr # q.addr /\ q2.n < q.n /\ q2.answered)
        sound == /\ \E q \in o.reqs : reqOK(q)
                 /\ d.kind = "Response" /\ d.intact
                 /\ <<d.cseq, r.id>> \in o.chals
                 /\ d.cid = r.id
        F5 == IF r.type = "ClientConnected" /\ ~sound THEN {<<"C05", "Sound">>} ELSE {}
        \* ---- C07 / C17: non-authentic datagrams change nothing ----
        changed == Frozen(e.snap0) # Frozen(e.snap1)
        aged == \E i \in 1..Len(e.snap0.clients) : \E j \in 1..Len(e.snap1.clients) :
                    e.snap0.clients[i].id = e.snap1.clients[j].id /\ e.snap0.clients[i].addr = e.snap1.clients[j].addr
                    /\ e.snap1.clients[j].age < e.snap0.clients[i].age
        effect == r.type \notin {"None"} \/ changed \/ aged \/ e.reply.kind # "None"
        F7 == (IF nonauth /\ effect THEN {<<"C07", "NoEffect">>, <<"C17", "TamperEvident">>} ELSE {})
              \cup (IF (nonauth \/ d.label = "replay") /\ aged THEN {<<"C18", "ForgeryDoesNotPostpone">>} ELSE {})
        \* ---- C10: a full server refuses without disturbing ----
        full == e.snap0.n >= e.snap0.max /\ ~o.lowered
        F10 == (IF full /\ r.type = "ClientConnected" THEN {<<"C10", "FullRefuses">>} ELSE {})
               \cup (IF full /\ r.type \in {"None", "PacketToSend"} /\ d.kind \in {"Request", "Response"}
                        /\ [clients |-> Frozen(e.snap0).clients, n |-> e.snap0.n] # [clients |-> Frozen(e.snap1).clients, n |-> e.snap1.n]
                     THEN {<<"C10", "FullRefuses">>} ELSE {})
        \* ---- C19: no amplification towards unproven addresses ----
        validReq == /\ d.kind = "Request" /\ d.label # "garbage" /\ ~nonauth /\ TokValid(o, d.tok, tsecs)
                    \* a token the server already acted on for another address is not valid from this one
                    /\ ~(\E q2 \in o.reqs : q2.tok = d.tok /\ q2.addr # e.from /\ q2.answered)
        \* a valid response echoes a challenge this server issued FOR THE TOKEN the address is bound to (id and user data)
        boundTok == Get(o.bind, e.from, "none")
        validResp == /\ d.kind = "Response" /\ d.intact /\ ~nonauth /\ <<d.cseq, d.cid>> \in o.chals
                     /\ boundTok \in DOMAIN o.tok /\ o.tok[boundTok].id = d.cid /\ o.tok[boundTok].ud = d.cud
        F19 == IF unproven /\ e.reply.kind # "None"
               THEN (IF e.reply.to # e.from THEN {<<"C19", "SameAddr">>} ELSE {})
                    \cup (IF e.reply.len >= d.len THEN {<<"C19", "Smaller">>} ELSE {})
                    \cup (IF ~(validReq \/ validResp) THEN {<<"C19", "SilentOnInvalid">>} ELSE {})
               ELSE {}
        \* ---- bookkeeping ----
        isReq == d.kind = "Request" /\ d.tok \in DOMAIN o.tok
        reqs1 == IF isReq
                 THEN o.reqs \cup {[addr |-> e.from, tok |-> d.tok, n |-> Cardinality(o.reqs) + 1,
                                    valid |-> (~nonauth /\ d.label # "garbage" /\ d.proto = "P" /\ TokValid(o, d.tok, tsecs)),
                                    answered |-> e.reply.kind # "None"]}
                 ELSE o.reqs
        chals1 == IF e.reply.kind = "Challenge" THEN o.chals \cup {<<e.reply.cseq, e.reply.cid>>} ELSE o.chals
        surf1 == IF r.type = "Payload" THEN o.surfS \cup {nonceKey} ELSE o.surfS
        seen1 == IF d.intact /\ d.kind \in {"KeepAlive", "Payload", "Disconnect"} /\ d.key # "none"
                 THEN Put(o.maxSeen, <<d.key, "S">>, Max2(Get(o.maxSeen, <<d.key, "S">>, 0), d.seq)) ELSE o.maxSeen
        \* an authentic packet from a connected client refreshes the observer's own timeout clock
        \* generous clock (anything that may be authentic, for "must time out") and strict clock (certainly
        \* authentic and fresh, for "must not time out")
        sid == IF \E x \in DOMAIN o.sess : o.sess[x].addr = e.from THEN CHOOSE x \in DOMAIN o.sess : o.sess[x].addr = e.from ELSE 0 - 1
        authHi == IF sid >= 0 /\ d.intact /\ ~nonauth /\ d.label \in {"genuine", "crafted", "padded"}
                  THEN Put(o.lastAuthS, sid, now) ELSE o.lastAuthS
        authLo == IF sid >= 0 /\ d.intact /\ ~nonauth /\ d.label = "genuine" /\ d.kind \in {"KeepAlive", "Payload"} /\ T.id = sid
                  THEN Put(o.loS, sid, now) ELSE o.loS
        \* the token an address is bound to: the one of the last request from it that was answered with a challenge
        bind1 == IF e.reply.kind = "Challenge" /\ d.kind = "Request" THEN Put(o.bind, e.from, d.tok) ELSE o.bind
        o1 == [o EXCEPT !.bind = bind1, !.reqs = reqs1, !.chals = chals1, !.surfS = surf1, !.maxSeen = seen1, !.lastAuthS = authHi, !.loS = authLo]
        o2 == ObsConnEvent(o1, r, now)
        o3 == ObsEmit(o2, e.reply)
        o4 == SnapCheck(Flag(o3, F4 \cup F5 \cup F7 \cup F10 \cup F19), e)
    IN o4

(***************************************************************************)
(* Presenting a datagram to a client                                       *)
(***************************************************************************)
ObsCDeliver(o, e) ==
    LET d == e.d
        c == e.c
        known == c \in DOMAIN o.cli
        tok == IF known THEN o.cli[c].tok ELSE "none"
        nonauth == NonAuth(o, d, FALSE, 0) \/ (d.key # "none" /\ d.key # "s2c:" \o tok) \/ d.kind \in {"Request", "Garbage"}
        nonceKey == <<d.key, d.seq, c>>
        authentic == d.kind = "Payload" /\ d.intact /\ d.key = "s2c:" \o tok /\ d.proto = "P" /\ e.res.ptag = d.ptag /\ e.res.plen = d.plen
        effect == e.res.some \/ e.cs1.status # e.cs0.status \/ e.cs1.reason # e.cs0.reason \/ e.cs1.age < e.cs0.age
        F == (IF e.res.some /\ ~authentic THEN {<<"C04", "Authentic">>} ELSE {})
             \cup (IF e.res.some /\ nonceKey \in o.surfC THEN {<<"C04", "Once">>} ELSE {})
             \cup (IF /\ d.kind = "Payload" /\ d.label = "genuine" /\ d.intact /\ ~nonauth /\ e.cs0.status = "Connected"
                      /\ nonceKey \notin o.surfC /\ d.seq + WINDOW > Get(o.maxSeen, <<d.key, c>>, 0) /\ ~e.res.some
                   THEN {<<"C04", "Accept">>, <<"C07", "StillAccepts">>} ELSE {})
             \cup (IF nonauth /\ effect THEN {<<"C07", "NoEffect">>, <<"C17", "TamperEvident">>} ELSE {})
             \cup (IF (nonauth \/ d.label = "replay") /\ e.cs1.age < e.cs0.age THEN {<<"C18", "ForgeryDoesNotPostpone">>} ELSE {})
        surf1 == IF e.res.some THEN o.surfC \cup {nonceKey} ELSE o.surfC
        seen1 == IF d.intact /\ d.kind \in {"KeepAlive", "Payload", "Disconnect"} /\ d.key # "none"
                 THEN Put(o.maxSeen, <<d.key, c>>, Max2(Get(o.maxSeen, <<d.key, c>>, 0), d.seq)) ELSE o.maxSeen
        auth1 == IF ~nonauth /\ d.intact /\ d.label \in {"genuine", "crafted", "padded"}
                 THEN Put(o.lastAuthC, c, e.cs0.t) ELSE o.lastAuthC
        lo1 == IF ~nonauth /\ d.intact /\ d.label = "genuine" /\ d.kind \in {"KeepAlive", "Payload"} /\ e.cs0.status = "Connected"
               THEN Put(o.loC, c, e.cs0.t) ELSE o.loC
        o1 == [o EXCEPT !.surfC = surf1, !.maxSeen = seen1, !.lastAuthC = auth1, !.loC = lo1,
                        !.cli = IF known THEN [@ EXCEPT ![c].status = e.cs1.status, ![c].reason = e.cs1.reason] ELSE @]
    IN Flag(o1, F)

(***************************************************************************)
(* Time                                                                    *)
(***************************************************************************)
RECURSIVE FoldOuts(_, _, _, _)
FoldOuts(o, outs, i, now) ==
    IF i > Len(outs) THEN o
    ELSE FoldOuts(ObsEmit(ObsConnEvent(o, outs[i], now), outs[i].d), outs, i + 1, now)

ObsSUpdate(o, e) ==
    LET now == e.snap1.t
        \* which sessions the observer considers silent for longer than their timeout
        Timeout(id) == LET ts == {t \in DOMAIN o.tok : o.tok[t].id = id} IN
                       IF ts = {} THEN 0 - 1 ELSE o.tok[CHOOSE t \in ts : TRUE].timeout
        dropped == {e.outs[i].id : i \in {j \in 1..Len(e.outs) : e.outs[j].type = "ClientDisconnected"}}
        must == {id \in DOMAIN o.sess : Timeout(id) > 0 /\ id \in DOMAIN o.lastAuthS /\ now - o.lastAuthS[id] > Timeout(id) * 1000}
        stillThere == {e.snap1.clients[i].id : i \in 1..Len(e.snap1.clients)}
        \* a timeout is legitimate only if nothing authentic arrived within the timeout (generous: uses the observer clock)
        false == {id \in dropped : id \in DOMAIN o.loS /\ Timeout(id) > 0 /\ now - o.loS[id] <= Timeout(id) * 1000}
        F == (IF must \cap stillThere # {} THEN {<<"C18", "TimesOut">>} ELSE {})
             \cup (IF false # {} THEN {<<"C18", "NoFalseTimeout">>} ELSE {})
        o1 == FoldOuts(o, e.outs, 1, now)
    IN SnapCheck(Flag(o1, F), e)

ObsCUpdate(o, e) ==
    LET c == e.c
        known == c \in DOMAIN o.cli
        T == IF known /\ o.cli[c].tok \in DOMAIN o.tok THEN o.tok[o.cli[c].tok] ELSE [timeout |-> 0 - 1]
        now == e.cs1.t
        silent == known /\ c \in DOMAIN o.lastAuthC /\ T.timeout > 0 /\ now - o.lastAuthC[c] > T.timeout * 1000
        F == (IF silent /\ e.cs0.status = "Connected" /\ e.cs1.status = "Connected" THEN {<<"C18", "TimesOut">>} ELSE {})
             \cup (IF known /\ e.cs0.status = "Connected" /\ e.cs1.status = "Disc" /\ e.cs1.reason = "ConnectionTimedOut"
                      /\ c \in DOMAIN o.loC /\ T.timeout > 0 /\ now - o.loC[c] <= T.timeout * 1000
                   THEN {<<"C18", "NoFalseTimeout">>} ELSE {})
        o1 == [o EXCEPT !.cli = IF known THEN [@ EXCEPT ![c].status = e.cs1.status, ![c].reason = e.cs1.reason] ELSE @]
    IN ObsEmit(Flag(o1, F), e.out)

(***************************************************************************)
(* Bounded liveness: heal, good rounds (pump)                              *)
(***************************************************************************)
\* liveness is claimed for the clients that have not given up (timed out, denied, expired) by the time the network heals
ObsHeal(o, e) ==
    LET alive == SelectSeq(e.cs, LAMBDA c : c \in DOMAIN o.cli /\ o.cli[c].status # "Disc")
    IN [o EXCEPT !.heal = [on |-> TRUE, bound |-> e.bound, rounds |-> 0, cs |-> alive]]

ObsRoundEnd(o, e) ==
    IF ~o.heal.on THEN o ELSE
    LET h == [o.heal EXCEPT !.rounds = @ + 1]
        due == h.bound >= 0 /\ h.rounds >= h.bound
        \* every client named at heal time holds a token that was valid then and is (still) connected on both sides
        late == {c \in Range(h.cs) : c \in DOMAIN o.cli /\
                    ~(o.cli[c].status = "Connected" /\ o.cli[c].tok \in DOMAIN o.tok /\ o.tok[o.cli[c].tok].id \in DOMAIN o.sess)}
    IN FlagIf([o EXCEPT !.heal = h], due /\ late # {}, <<"C18", "Connects">>)

(***************************************************************************)
(* Other calls                                                             *)
(***************************************************************************)
ObsPayloadGen(o, e) == ObsEmit(o, e.d)

ObsSDisconnect(o, e) ==
    LET o1 == ObsConnEvent(o, e.res, e.snap0.t) IN SnapCheck(ObsEmit(o1, e.d), e)

ObsCDisconnect(o, e) ==
    LET c == e.c
        o1 == [o EXCEPT !.cli = IF c \in DOMAIN @ THEN [@ EXCEPT ![c].status = e.cs1.status, ![c].reason = e.cs1.reason] ELSE @]
    IN ObsEmit(o1, e.d)

ObsSetMax(o, e) == SnapCheck([o EXCEPT !.lowered = @ \/ e.snap1.max < e.snap0.max], e)

\* C18: a half-open session is gone once its token has expired (marker placed by the schedule after the expiry)
ObsPendingGone(o, e) == FlagIf(o, e.addr \in Range(o.lastPending), <<"C18", "PendingExpires">>)

ObsTokenBytes(o, e) == FlagIf(o, e.panic, <<"C07", "NoPanic">>)

Dispatch(o, e) ==
    CASE e.ev = "token"       -> ObsToken(o, e)
      [] e.ev = "client"      -> ObsClient(o, e)
      [] e.ev = "sdeliver"    -> ObsSDeliver(o, e)
      [] e.ev = "cdeliver"    -> ObsCDeliver(o, e)
      [] e.ev = "supdate"     -> ObsSUpdate(o, e)
      [] e.ev = "cupdate"     -> ObsCUpdate(o, e)
      [] e.ev = "spayload"    -> ObsPayloadGen(o, e)
      [] e.ev = "cpayload"    -> ObsPayloadGen(o, e)
      [] e.ev = "sdisconnect" -> ObsSDisconnect(o, e)
      [] e.ev = "cdisconnect" -> ObsCDisconnect(o, e)
      [] e.ev = "setmax"      -> ObsSetMax(o, e)
      [] e.ev = "heal"        -> ObsHeal(o, e)
      [] e.ev = "round_end"   -> ObsRoundEnd(o, e)
      [] e.ev = "tokenbytes"  -> ObsTokenBytes(o, e)
      [] e.ev = "rt"          -> FlagIf(o, ~e.ok, <<"C16", "RoundTrip">>)
      [] e.ev = "re"          -> FlagIf(o, e.decodable /\ ~e.ok, <<"C16", "Reencode">>)
      [] e.ev = "pending_gone" -> ObsPendingGone(o, e)
      [] OTHER                -> o

ObsStep(o, e) ==
    IF e.ev = "reset" THEN ObsReset(e.cfg) ELSE
    LET o0 == [o EXCEPT !.flags = {}]
        o1 == Dispatch(o0, e)
        o2 == IF e.panic THEN Flag(o1, {<<p, "NoPanic">> : p \in Props(o1)}) ELSE o1
    IN [o2 EXCEPT !.flags = {f \in @ : f[1] \in Props(o2)}]

Detail(o, e) == [sess |-> o.sess, chals |-> o.chals, reqs |-> o.reqs]

\* cause tag of a flagged event (part of the violation signature used by known_findings.json): a datagram of a token whose
\* session had already ended is a presentation "after_session" (D18)
\* "token_table_evicted" (D21): the token of the datagram was answered earlier at ANOTHER address, and since then at least
\* TOKEN_TABLE requests with other tokens were answered -- the code's table of used tokens (2048 entries, oldest replaced)
\* has forgotten the binding
TOKEN_TABLE == 2048
Evicted(o, e) ==
    /\ "d" \in DOMAIN e /\ "from" \in DOMAIN e
    /\ \E q2 \in o.reqs : /\ q2.tok = e.d.tok /\ q2.addr # e.from /\ q2.answered
                           /\ Cardinality({q3.tok : q3 \in {x \in o.reqs : x.n > q2.n /\ x.answered /\ x.tok # e.d.tok}}) >= TOKEN_TABLE
Cause(o, e) == IF "d" \in DOMAIN e /\ e.d.tok \in o.ended THEN "after_session"
               ELSE IF Evicted(o, e) THEN "token_table_evicted" ELSE "none"
=============================================================================
