------------------------- MODULE TraceTransportStrict -------------------------
(***************************************************************************)
(* Strict pass for the glue model: the behaviours exported from            *)
(* MC_Transport are replayed on the real UDP stack (rvh stack) and every   *)
(* recorded transport step must show what the model's step produces from   *)
(* the model state reached so far:                                         *)
(*   cstep  -> the renet status of that client (cr)                        *)
(*   sstep  -> the ids the message layer reports connected (sr), the ids   *)
(*             the netcode layer reports connected (sn), the server events *)
(*             emitted by this update, in order                            *)
(* The relay's decision (pass / drop) is read from the recorded relay      *)
(* event.  The good rounds after the heal marker (every datagram passes,   *)
(* same step length) are followed as well: this is where half-open         *)
(* sessions run into the model's time-outs.  A mismatch is DRIFT, not a    *)
(* verdict.                                                                *)
(***************************************************************************)
EXTENDS MC_Transport, IOUtils

TraceLog == ndJsonDeserialize(IOEnv.TRACE)

VARIABLES l, rl, skip, cnt
svars == <<vars, l, rl, skip, cnt>>
mvars == <<sn, sr, cn, cr, up, down, evq, seen, asked, cq, sq, tout, ctl, hist>>

SInit == /\ Init /\ l = 1 /\ rl = [k \in Ids \X {"up", "down"} |-> "hold"] /\ skip = FALSE
         /\ cnt = [runs |-> 0, matched |-> 0, drift |-> 0, accepted |-> 0]

Status(s) == CASE s = "connecting" -> "Connecting" [] s = "connected" -> "Connected" [] OTHER -> "Disc"
RECURSIVE SortedI(_)
SortedI(S) == IF S = {} THEN <<>> ELSE LET m == CHOOSE x \in S : \A y \in S : x <= y IN <<m>> \o SortedI(S \ {m})
EvView(evs) == [i \in 1..Len(evs) |-> [type |-> evs[i].type, id |-> evs[i].id]]
RangeOf(s) == {s[i] : i \in 1..Len(s)}

Drift(e, what) == /\ skip' = TRUE /\ cnt' = [cnt EXCEPT !.drift = @ + 1]
                  /\ PrintT(<<"DRIFT", ToJson([run |-> e.run, i |-> e.i, ev |-> e.ev, fields |-> what])>>)
Match == /\ skip' = FALSE /\ cnt' = [cnt EXCEPT !.matched = @ + 1]

SNext ==
    /\ l <= Len(TraceLog)
    /\ l' = l + 1
    /\ LET e == TraceLog[l] IN
       IF e.ev = "reset"
       THEN /\ sn' = [i \in Ids |-> "none"] /\ sr' = [i \in Ids |-> "absent"] /\ cn' = [i \in Ids |-> "req"] /\ cr' = [i \in Ids |-> "connecting"]
            /\ up' = [i \in Ids |-> {}] /\ down' = [i \in Ids |-> {}] /\ evq' = <<>> /\ seen' = [i \in Ids |-> FALSE] /\ asked' = {}
            /\ cq' = [i \in Ids |-> 0] /\ sq' = [i \in Ids |-> 0] /\ tout' = {}
            /\ ctl' = [steps |-> 0, ndisc |-> 0, bad |-> FALSE] /\ hist' = <<>>
            /\ rl' = [k \in Ids \X {"up", "down"} |-> "hold"] /\ skip' = FALSE
            /\ cnt' = [cnt EXCEPT !.runs = @ + 1, !.accepted = IF ~skip /\ cnt.runs > 0 THEN @ + 1 ELSE @]
       ELSE IF skip THEN UNCHANGED <<mvars, rl, skip, cnt>>
       ELSE IF e.ev = "relay" /\ e.c \in Ids
       THEN \* an empty `ops` means that nothing was queued: the relay action is as good as none
            /\ rl' = [rl EXCEPT ![<<e.c, e.dir>>] = IF e.ops = <<>> THEN @ ELSE IF "drop" \in RangeOf(e.ops) THEN "drop" ELSE "pass"]
            /\ UNCHANGED <<mvars, skip, cnt>>
       ELSE IF e.ev = "cstep" /\ e.c \in Ids
       THEN /\ ClientStep(e.c, rl[<<e.c, "down">>])
            /\ rl' = [rl EXCEPT ![<<e.c, "down">>] = "hold"]
            /\ IF Status(cr'[e.c]) = e.cs.status THEN Match ELSE Drift(e, <<"status", cr'[e.c], e.cs.status>>)
       ELSE IF e.ev = "sstep"
       THEN LET mode == [i \in Ids |-> rl[<<i, "up">>]]
                s == ServerAll(Ids, mode, [sn |-> sn, sr |-> sr, evq |-> <<>>, down |-> down, sq |-> sq, tout |-> tout])
                ids == SortedI({i \in Ids : s.sr[i] = "conn"})
                nids == SortedI({i \in Ids : s.sn[i] = "conn"})
                bad == {f \in {"ids", "nids", "evs"} :
                            \/ (f = "ids" /\ ids # e.view.ids)
                            \/ (f = "nids" /\ nids # e.view.nids)
                            \* the order of events of DIFFERENT ids follows a hash map in the code: compared per id
                            \/ (f = "evs" /\ \E i \in Ids : SelectSeq(EvView(s.evq), LAMBDA x : x.id = i) # SelectSeq(EvView(e.view.evs), LAMBDA x : x.id = i))}
            IN /\ sn' = s.sn /\ sr' = s.sr /\ down' = s.down /\ up' = [i \in Ids |-> IF mode[i] = "hold" THEN up[i] ELSE {}] /\ sq' = s.sq /\ tout' = s.tout
               /\ evq' = <<>>                                   \* the harness drains the server events with every step
               /\ seen' = [i \in Ids |-> IF \E j \in 1..Len(s.evq) : s.evq[j].id = i
                                         THEN s.evq[CHOOSE j \in 1..Len(s.evq) : s.evq[j].id = i /\ \A k \in (j + 1)..Len(s.evq) : s.evq[k].id # i].type = "Connected"
                                         ELSE seen[i]]
               /\ rl' = [k \in Ids \X {"up", "down"} |-> IF k[2] = "up" THEN "hold" ELSE rl[k]]
               /\ UNCHANGED <<cn, cr, asked, cq, ctl, hist>>
               /\ IF bad = {} THEN Match ELSE Drift(e, <<bad, ids, nids, EvView(s.evq)>>)
       ELSE IF e.ev = "disc" /\ e.c \in Ids
       THEN IF ENABLED Disc(e.c, e.who)
            THEN Disc(e.c, e.who) /\ UNCHANGED <<rl, skip, cnt>>
            ELSE UNCHANGED <<mvars, rl>> /\ Drift(e, <<"disconnect not enabled in the model">>)
       ELSE UNCHANGED <<mvars, rl, skip, cnt>>

SSpec == SInit /\ [][SNext]_svars
SDone == l <= Len(TraceLog) \/ PrintT(<<"STRICT", ToJson([cnt EXCEPT !.accepted = IF ~skip /\ cnt.runs > 0 THEN @ + 1 ELSE @])>>)
=============================================================================
