\* C11 quick 2: two clients, one reliable ordered channel whose send budget holds two messages but not three; unicast and
\* broadcast in any interleaving with flush / deliver / receive (6 calls), then good rounds: a broadcast that finds one client
\* saturated disconnects that client (send-channel error) and still reaches the other one; a client that stays connected
\* obtains every broadcast exactly once, in order with its unicast traffic.
SPECIFICATION Spec
CONSTANTS
  ChSC <- Ch_sat
  ChCS <- Ch_sat
  SeqBase = 0
  MidBase = 0
  Budget = 60000
  Ids = {1, 2}
  MaxSteps = 6
  Calls = {"traffic", "bcast"}
  Msgs <- Msgs_sat
  HealDt = 300
  HealRounds = 3
  Bound = 3
  PropsOn <- P_C11
  ExportAll = FALSE
  Export = TRUE
  Manual = FALSE
INVARIANT NoFlag
INVARIANT ExportInv
VIEW View
CHECK_DEADLOCK FALSE
