\* C02 quick: small + 3-slice message on ReliableUnordered, duplicates of slices, receive anywhere
SPECIFICATION Spec
CONSTANTS
  ChSC <- Ch_RU
  ChCS <- Ch_RU
  SeqBase = 0
  MidBase = 0
  Budget = 60000
  Workload <- WL_small_3slices
  MaxFlushS = 0
  MaxFlushC = 1
  MaxTicks = 0
  Dts = {300}
  MaxDeliver = 2
  HealDt = 300
  HealRounds = 3
  Bound = 3
  HealLose = {TRUE, FALSE}
  Reorder = TRUE
  RecvAnywhere = TRUE
  PropsOn <- P_C02
  MaxHostile = 0
  HostileSet = "none"
  ExportAll = TRUE
  Export = TRUE
INVARIANT NoFlag
INVARIANT ExportInv
VIEW View
CHECK_DEADLOCK FALSE
