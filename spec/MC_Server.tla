------------------------------ MODULE MC_Server ------------------------------
(***************************************************************************)
(* RenetServer (renet/src/server.rs): the connection table, the event      *)
(* queue, routing and broadcast, over one Renet.tla world per client id.   *)
(* Every public call of RenetServer is an action; the calls of the clients *)
(* and of the transport are the actions of Renet.tla.  Used for C11 (iso-  *)
(* lation, broadcast) and C12 (disconnection is final, events alternate,   *)
(* first reason reported).                                                 *)
(***************************************************************************)
EXTENDS RenetSrv, Json

CONSTANTS Ids,         \* client ids (a set of small integers)
          MaxSteps,    \* length of the explored call sequences
          Calls,       \* which families of calls are enabled: subset of {"table", "status", "traffic", "bcast", "hostile", "local"}
          Msgs,        \* sequence of [ch, cid, len]: payloads used by send / broadcast, consumed in order
          HealDt, HealRounds, Bound,
          PropsOn, ExportAll, Export, Manual

VARIABLES W, has, evq, obs, ctl, hist
vars == <<W, has, evq, obs, ctl, hist>>

IdSeq == SortedSeq(Ids)
Cfg == [conns |-> IdSeq, sc |-> ChSC, cs |-> ChCS, budget |-> Budget, seqbase |-> SeqBase, midbase |-> MidBase,
        props |-> PropsOn, manual |-> Manual]

GoneEv(name, id) == [ev |-> name, conn |-> id, side |-> "S", st0 |-> GoneProj, st1 |-> GoneProj, panic |-> FALSE]

Init == /\ W = [i \in Ids |-> IF Manual THEN [NewWorld EXCEPT !.ep["C"].status = "Connecting"] ELSE NewWorld]
        /\ has = [i \in Ids |-> ~Manual]
        /\ evq = <<>>
        /\ obs = ObsReset(Cfg)
        /\ ctl = [steps |-> 0, msg |-> 1, healed |-> FALSE, rounds |-> 0]
        /\ hist = <<>>

Rec(step) == hist' = IF Export THEN Append(hist, step) ELSE hist
Tick == ctl' = [ctl EXCEPT !.steps = @ + 1]
Can == ~ctl.healed /\ ctl.steps < MaxSteps
WithConn(ev, id) == [ev EXCEPT !.conn = id]

\* a Renet.tla call on the world of client id
OnConn(id, r, step) == /\ W' = [W EXCEPT ![id] = r.w]
                       /\ obs' = ObsFold(obs, <<WithConn(r.ev, id)>>, 1)
                       /\ Rec(step)
                       /\ UNCHANGED <<has, evq>>

(***************************************************************************)
(* connection table (server.rs:37-47, 133-153, 284-296)                    *)
(***************************************************************************)
AAdd(id) ==
    /\ Can /\ "table" \in Calls
    /\ LET e0 == IF has[id] THEN Proj(W[id].ep["S"], "S") ELSE GoneProj
           w1 == IF has[id] THEN W[id] ELSE [W[id] EXCEPT !.ep["S"] = NewEndpoint("S")]
           ev == [ev |-> "api", conn |-> id, side |-> "S", call |-> "add_connection", st0 |-> e0, st1 |-> Proj(w1.ep["S"], "S"), panic |-> FALSE]
       IN /\ W' = [W EXCEPT ![id] = w1]
          /\ evq' = IF has[id] THEN evq ELSE Append(evq, [type |-> "Connected", id |-> id, reason |-> "None"])
          /\ has' = [has EXCEPT ![id] = TRUE]
          /\ obs' = ObsFold(obs, <<ev>>, 1)
    /\ Rec([a |-> "api", conn |-> id, side |-> "S", call |-> "add_connection"]) /\ Tick

ARemove(id) ==
    /\ Can /\ "table" \in Calls
    /\ LET e0 == IF has[id] THEN Proj(W[id].ep["S"], "S") ELSE GoneProj
           reason == IF W[id].ep["S"].status = "Disc" THEN W[id].ep["S"].reason ELSE "Transport"
           ev == [ev |-> "api", conn |-> id, side |-> "S", call |-> "remove_connection", st0 |-> e0, st1 |-> GoneProj, panic |-> FALSE]
       IN /\ evq' = IF has[id] THEN Append(evq, [type |-> "Disconnected", id |-> id, reason |-> reason]) ELSE evq
          /\ has' = [has EXCEPT ![id] = FALSE]
          /\ obs' = ObsFold(obs, <<ev>>, 1)
          /\ UNCHANGED W
    /\ Rec([a |-> "api", conn |-> id, side |-> "S", call |-> "remove_connection"]) /\ Tick

\* local clients (server.rs:272-309)
ALocal(id, call) ==
    /\ Can /\ "local" \in Calls
    /\ LET r == SrvLocal(call, W[id], has[id], evq, id) IN
       /\ W' = [W EXCEPT ![id] = r.w]
       /\ has' = [has EXCEPT ![id] = r.present]
       /\ evq' = r.evq
       /\ obs' = ObsFold(obs, <<r.ev>>, 1)
    /\ Rec([a |-> "api", conn |-> id, side |-> "S", call |-> call]) /\ Tick

\* calls that reach the server side connection object
ASrvCall(id, call) ==
    /\ Can /\ "status" \in Calls
    /\ IF has[id]
       THEN OnConn(id, DoApi(W[id], "S", call), [a |-> "api", conn |-> id, side |-> "S", call |-> call])
       ELSE /\ obs' = ObsFold(obs, <<GoneEv("api", id) @@ [call |-> call]>>, 1)
            /\ Rec([a |-> "api", conn |-> id, side |-> "S", call |-> call])
            /\ UNCHANGED <<W, has, evq>>
    /\ Tick

ACliCall(id, call) ==
    /\ Can /\ "status" \in Calls
    /\ OnConn(id, DoApi(W[id], "C", call), [a |-> "api", conn |-> id, side |-> "C", call |-> call])
    /\ Tick

AGetEvent ==
    /\ Can /\ "table" \in Calls
    /\ LET res == IF evq = <<>> THEN [some |-> FALSE, type |-> "None", id |-> 0, reason |-> "None"]
                  ELSE [some |-> TRUE, type |-> Head(evq).type, id |-> Head(evq).id, reason |-> Head(evq).reason]
           ids == SortedSeq({i \in Ids : has[i] /\ W[i].ep["S"].status = "Connected"})
       IN /\ obs' = ObsFold(obs, <<[ev |-> "get_event", res |-> res, ids |-> ids, panic |-> FALSE]>>, 1)
          /\ evq' = IF evq = <<>> THEN evq ELSE Tail(evq)
    /\ Rec([a |-> "get_event"]) /\ Tick
    /\ UNCHANGED <<W, has>>

(***************************************************************************)
(* traffic                                                                 *)
(***************************************************************************)
ASend(id, side) ==
    /\ Can /\ "traffic" \in Calls /\ ctl.msg <= Len(Msgs)
    /\ LET m == Msgs[ctl.msg]
           step == [a |-> "send", conn |-> id, side |-> side, ch |-> m.ch, tag |-> m.cid, len |-> m.len] IN
       IF side = "S" /\ ~has[id]
       THEN /\ obs' = ObsFold(obs, <<GoneEv("send", id) @@ [dir |-> "sc", ch |-> m.ch, cid |-> m.cid, len |-> m.len]>>, 1)
            /\ Rec(step) /\ UNCHANGED <<W, has, evq>>
       ELSE OnConn(id, DoSend(W[id], side, m.ch, m.cid, m.len), step)
    /\ ctl' = [ctl EXCEPT !.steps = @ + 1, !.msg = @ + 1]

\* broadcast_message / broadcast_message_except (server.rs:167-188): one send per connection in the table
RECURSIVE BcastTo(_, _, _, _)
BcastTo(Wc, ids, m, evs) ==
    IF ids = <<>> THEN [W |-> Wc, evs |-> evs]
    ELSE LET id == Head(ids)
             r == DoSend(Wc[id], "S", m.ch, m.cid, m.len)
         IN BcastTo([Wc EXCEPT ![id] = r.w], Tail(ids), m, evs)

ABcast(except) ==
    /\ Can /\ "bcast" \in Calls /\ ctl.msg <= Len(Msgs)
    /\ LET m == Msgs[ctl.msg]
           targets == SortedSeq({i \in Ids : has[i] /\ i # except})
           listed == SortedSeq({i \in Ids : has[i] /\ W[i].ep["S"].status # "Disc"})
           r == BcastTo(W, targets, m, <<>>)
           ev == [ev |-> "bcast", ch |-> m.ch, cid |-> m.cid, len |-> m.len, except |-> except, targets |-> listed, panic |-> FALSE]
       IN /\ W' = r.W
          /\ obs' = ObsFold(obs, <<ev>>, 1)
          /\ Rec([a |-> "bcast", ch |-> m.ch, tag |-> m.cid, len |-> m.len, except |-> except])
    /\ ctl' = [ctl EXCEPT !.steps = @ + 1, !.msg = @ + 1]
    /\ UNCHANGED <<has, evq>>

AFlush(id, side) ==
    /\ Can /\ "traffic" \in Calls
    /\ LET step == [a |-> "flush", conn |-> id, side |-> side] IN
       IF side = "S" /\ ~has[id]
       THEN /\ W' = [W EXCEPT ![id].net["S"] = Append(@, <<>>)]
            /\ obs' = ObsFold(obs, <<GoneEv("flush", id) @@ [dir |-> "sc", t |-> W[id].ep["S"].now, fl |-> Len(W[id].net["S"]) + 1, pk |-> <<>>]>>, 1)
            /\ Rec(step) /\ UNCHANGED <<has, evq>>
       ELSE OnConn(id, DoFlush(W[id], side), step)
    /\ Tick

ADeliver(id, to, fl, ix) ==
    /\ Can /\ "traffic" \in Calls
    /\ fl \in 1..Len(W[id].net[Other(to)]) /\ ix \in 1..Len(W[id].net[Other(to)][fl])
    /\ <<Other(to), fl, ix>> \notin DOMAIN W[id].dl
    /\ (to = "C" \/ has[id])
    /\ OnConn(id, DoDeliver(W[id], to, fl, ix), [a |-> "deliver", conn |-> id, to |-> to, fl |-> fl, ix |-> ix])
    /\ Tick

ARecv(id, side, i) ==
    /\ Can /\ "traffic" \in Calls
    /\ (side = "C" \/ has[id])
    /\ LET ch == RecvCh(side)[i].id IN
       OnConn(id, DoRecv(W[id], side, ch), [a |-> "recv", conn |-> id, side |-> side, ch |-> ch])
    /\ Tick

BadPkt == [seq |-> 0, kind |-> "BAD", ch |-> 0 - 1, bytes |-> 5, msgs |-> <<>>, sl |-> NoSl, ranges |-> <<>>, pay |-> 0]
AHostile(id, to) ==
    /\ Can /\ "hostile" \in Calls
    /\ (to = "C" \/ has[id])
    /\ OnConn(id, DoHostile(W[id], to, BadPkt), [a |-> "hostile", conn |-> id, to |-> to, hex |-> "ff00000000", p |-> BadPkt])
    /\ Tick

(***************************************************************************)
(* heal + good rounds over every client (bounded liveness)                 *)
(***************************************************************************)
AHeal == /\ ~ctl.healed /\ HealRounds > 0
         /\ obs' = ObsStep(obs, [ev |-> "heal", conn |-> 0, bound |-> Bound, panic |-> FALSE])
         /\ W' = [i \in Ids |-> DoLose(W[i])]
         /\ Rec([a |-> "heal", conn |-> 0, bound |-> Bound, lose |-> TRUE])
         /\ ctl' = [ctl EXCEPT !.healed = TRUE]
         /\ UNCHANGED <<has, evq>>

\* the harness round over all connections: server-wide update, every client update, flush both sides of every
\* connection, deliver everything, drain; connections absent from the table take no part on the server side
RECURSIVE RoundAll(_, _, _)
RoundAll(Wc, ids, dt) ==
    IF ids = <<>> THEN [W |-> Wc, evs |-> <<>>]
    ELSE LET id == Head(ids)
             r == DoRound(Wc[id], dt)
             rest == RoundAll([Wc EXCEPT ![id] = r.w], Tail(ids), dt)
         IN [W |-> rest.W, evs |-> [j \in 1..Len(r.evs) |-> IF "conn" \in DOMAIN r.evs[j] THEN WithConn(r.evs[j], id) ELSE r.evs[j]] \o rest.evs]

ARound == /\ ctl.healed /\ ctl.rounds < HealRounds
          /\ \A i \in Ids : has[i]          \* rounds are only modelled with a full table (the harness round uses the server API)
          /\ LET r == RoundAll(W, IdSeq, HealDt) IN
             /\ W' = r.W
             /\ obs' = ObsFold(obs, r.evs, 1)
          /\ Rec([a |-> "roundeach", dt |-> HealDt])
          /\ ctl' = [ctl EXCEPT !.rounds = @ + 1]
          /\ UNCHANGED <<has, evq>>

Next == \/ \E id \in Ids : AAdd(id) \/ ARemove(id)
        \/ \E id \in Ids : \E call \in {"disconnect", "disconnect_due_to_transport", "set_connected", "set_connecting"} : ASrvCall(id, call)
        \/ \E id \in Ids : \E call \in {"disconnect", "disconnect_due_to_transport", "set_connected"} : ACliCall(id, call)
        \/ \E id \in Ids : \E call \in LocalCalls : ALocal(id, call)
        \/ AGetEvent
        \/ \E id \in Ids : \E side \in {"S", "C"} : ASend(id, side) \/ AFlush(id, side)
        \/ \E except \in Ids \cup {0} : ABcast(except)
        \/ \E id \in Ids : \E to \in {"S", "C"} : \E fl \in 1..3 : \E ix \in 1..4 : ADeliver(id, to, fl, ix)
        \/ \E id \in Ids : \E side \in {"S", "C"} : \E i \in 1..Len(RecvCh(side)) : ARecv(id, side, i)
        \/ \E id \in Ids : \E to \in {"S", "C"} : AHostile(id, to)
        \/ AHeal
        \/ ARound

Spec == Init /\ [][Next]_vars

NoFlag == obs.flags = {}
Done == (ctl.steps = MaxSteps /\ HealRounds = 0) \/ (ctl.healed /\ ctl.rounds = HealRounds)
ExportInv == (Export /\ (ExportAll \/ Done)) => PrintT(<<"PATH", ToJson([done |-> Done, steps |-> hist])>>)
ExportCfg == PrintT(<<"CFG", ToJson(Cfg)>>)
ASSUME ExportCfg
View == <<W, has, evq, obs, ctl>>

\* ---- named configurations ----
Ch(id, kind, max, resend) == [id |-> id, kind |-> kind, max |-> max, resend |-> resend]
Ch_tiny == <<Ch(0, "RO", 10, 300)>>
Ch_RO_U == <<Ch(0, "RO", 100000, 300), Ch(1, "U", 100000, 300)>>
M(ch, cid, len) == [ch |-> ch, cid |-> cid, len |-> len]
Msgs_api == <<M(0, 1, 8), M(0, 2, 8)>>
Msgs_bcast == <<M(0, 1, 5), M(0, 2, 7)>>
\* a send channel that holds two of these messages but not three: a broadcast finds one client saturated (documented
\* behaviour: that client is disconnected with a send-channel error) and the others not
Ch_sat == <<Ch(0, "RO", 12, 300)>>
Msgs_sat == <<M(0, 1, 5), M(0, 2, 5), M(0, 3, 5), M(0, 4, 5)>>
NoBound == 0 - 1
P_C12 == <<"C12">>
P_C11 == <<"C11", "C01", "C02", "C03", "C08">>
=============================================================================
