\* netcode, ServerAuthentication::Unsecure (all-zero connect key, host list ignored): two holders of self-made tokens (one listing
\* a foreign host) and one holder of a token sealed with the real private key, 2 slots; exchanges, departures, server
\* disconnects and time in any order (8 steps): the zero-key tokens connect, the other never does, the table clauses hold.
SPECIFICATION Spec
CONSTANTS
  Tokens <- Toks_unsec
  Clients <- Clis_unsec
  Secure0 <- UnsecureMode
  MaxClients0 = 2
  ServerAddrs = 1
  TokenSingleUse = TRUE
  TokenTable = 2048
  MaxSteps = 8
  Addrs = {1, 2, 3}
  Dts = {250}
  CraftToks = {}
  MaxPresent = 2
  Calls = {"exchange", "disconnect", "leave", "hijack"}
  PumpPay = FALSE
  HealRounds = 0
  HealDt = 250
  Bound = 0
  PropsOn <- P_HS
  Export = TRUE
  ExportAll = FALSE
  ExportOneIn = 40
INVARIANT NoFlag
INVARIANT ExportInv
VIEW View
CHECK_DEADLOCK FALSE
