\* netcode quick 1: victim + attacker owning two tokens (one for the victim's id), three addresses, 2 slots; requests, responses,
\* replays, re-addressed copies and cross-used challenges in any interleaving of 7 steps.
SPECIFICATION Spec
CONSTANTS
  Tokens <- Toks_cross
  Clients <- Clis_cross
  MaxClients0 = 2
  ServerAddrs = 1
  TokenSingleUse = TRUE
  TokenTable = 2048
  MaxSteps = 6
  Addrs = {1, 2, 3}
  Dts = {250}
  CraftToks = {"TA", "TV2"}
  MaxPresent = 2
  Calls = {"client", "craft", "readdress", "deliver"}
  PumpPay = FALSE
  HealRounds = 0
  HealDt = 250
  Bound = 0
  PropsOn <- P_HS
  Export = TRUE
  ExportAll = FALSE
  ExportOneIn = 2
INVARIANT NoFlag
INVARIANT ExportInv
VIEW View
CHECK_DEADLOCK FALSE
