\* netcode quick 5 (cross-use, focused): victim + attacker owning two tokens (one for the victim's id, with other user data);
\* honest exchanges (client update, its datagram to the server, the reply back) and responses the attacker seals with
\* its own keys echoing any challenge it has seen, in any interleaving of 4 steps -- small enough for every finished
\* behaviour to be replayed on the code.
SPECIFICATION Spec
CONSTANTS
  Tokens <- Toks_cross
  Clients <- Clis_cross
  MaxClients0 = 2
  ServerAddrs = 1
  TokenSingleUse = TRUE
  TokenTable = 2048
  MaxSteps = 4
  Addrs = {1, 2, 3}
  Dts = {250}
  CraftToks = {"TA", "TV2"}
  MaxPresent = 1
  Calls = {"exchange", "craft"}
  PumpPay = FALSE
  HealRounds = 0
  HealDt = 250
  Bound = 0
  PropsOn <- P_HS
  Export = TRUE
  ExportAll = FALSE
  ExportOneIn = 1
INVARIANT NoFlag
INVARIANT ExportInv
VIEW View
CHECK_DEADLOCK FALSE
