\* C14 quick 4: budget 1200 = one slice: a 2400-byte reliable message on the first channel uses every tick's budget to the last byte, a 50-byte message waits on the unreliable channel behind it (dropped whole in its first flush, never sent later)
SPECIFICATION Spec
CONSTANTS
  ChSC <- Ch_RO_U
  ChCS <- Ch_RO_U
  SeqBase = 0
  MidBase = 0
  Budget = 1200
  Workload <- WL_2400_then_U
  MaxFlushS = 1
  MaxFlushC = 3
  MaxTicks = 2
  Dts = {300}
  MaxDeliver = 1
  HealDt = 300
  HealRounds = 3
  Bound <- NoBound
  HealLose = {TRUE, FALSE}
  Reorder = TRUE
  RecvAnywhere = FALSE
  PropsOn <- P_C14
  MaxHostile = 0
  HostileSet = "none"
  ExportAll = TRUE
  Export = TRUE
INVARIANT NoFlag
INVARIANT ExportInv
VIEW View
CHECK_DEADLOCK FALSE
