--------------------------- MODULE TraceRenetStrict ---------------------------
(***************************************************************************)
(* Strict pass (implementation -> specification): every event recorded     *)
(* from the real code must be exactly the event that the corresponding     *)
(* action of Renet.tla produces from the model state reached so far        *)
(* (results, emitted packets, projected state after the call).  A mismatch *)
(* is DRIFT: the model no longer describes the code.  It is reported with  *)
(* the differing fields; the rest of that run is skipped.                  *)
(***************************************************************************)
EXTENDS Renet, Json, IOUtils

Rec == ndJsonDeserialize(IOEnv.TRACE)

VARIABLES l, w, skip, cnt
vars == <<l, w, skip, cnt>>

Init == /\ l = 1
        /\ w = NewWorld
        /\ skip = FALSE
        /\ cnt = [runs |-> 0, matched |-> 0, drift |-> 0, accepted |-> 0]

\* fields of the predicted event that the recorded event contradicts
Diff(pred, rec, ignore) == {f \in (DOMAIN pred) \ ignore : f \in DOMAIN rec /\ pred[f] # rec[f]}

Predict(e) ==
    CASE e.ev = "send"   -> DoSend(w, e.side, e.ch, e.cid, e.len)
      [] e.ev = "recv"   -> DoRecv(w, e.side, e.ch)
      [] e.ev = "update" -> DoUpdate(w, e.side, e.dt)
      [] e.ev = "flush"  -> DoFlush(w, e.side)
      [] e.ev = "deliver" /\ e.label = "genuine" -> DoDeliver(w, e.side, e.fl, e.ix)
      [] e.ev = "deliver" /\ e.label # "genuine" -> DoHostile(w, e.side, e.p)
      [] e.ev = "api"    -> DoApi(w, e.side, e.call)

Known(e) == e.ev \in {"send", "recv", "update", "flush", "deliver", "api"}

\* the server-wide update is logged without a per-connection projection
Ignore(e) == IF e.ev = "update" /\ e.conn = 0 THEN {"conn", "st0", "st1"} ELSE {}

Next == /\ l <= Len(Rec)
        /\ l' = l + 1
        /\ LET e == Rec[l] IN
           IF e.ev = "reset"
           THEN /\ w' = NewWorld /\ skip' = FALSE
                /\ cnt' = [cnt EXCEPT !.runs = @ + 1, !.accepted = IF ~skip /\ cnt.runs > 0 THEN @ + 1 ELSE @]
           ELSE IF skip THEN UNCHANGED <<w, skip, cnt>>
           ELSE IF e.ev = "heal" THEN /\ w' = (IF e.lose THEN DoLose(w) ELSE w) /\ UNCHANGED <<skip, cnt>>
           ELSE IF ~Known(e) THEN UNCHANGED <<w, skip, cnt>>
           ELSE IF e.ev = "deliver" /\ e.label = "genuine" /\
                   ~(e.fl \in 1..Len(w.net[Other(e.side)]) /\ e.ix \in 1..Len(w.net[Other(e.side)][e.fl]))
           THEN \* the code emitted a packet the model did not predict (drift was reported at the flush)
                /\ skip' = TRUE /\ UNCHANGED w /\ cnt' = [cnt EXCEPT !.drift = @ + 1]
                /\ PrintT(<<"DRIFT", ToJson([run |-> e.run, i |-> e.i, ev |-> e.ev, fields |-> {"no such packet in the model"}])>>)
           ELSE LET r == Predict(e)
                    d == Diff(r.ev, e, Ignore(e))
                IN IF d = {}
                   THEN /\ w' = TLCEval(r.w) /\ skip' = FALSE /\ cnt' = [cnt EXCEPT !.matched = @ + 1]
                   ELSE /\ w' = w /\ skip' = TRUE /\ cnt' = [cnt EXCEPT !.drift = @ + 1]
                        /\ PrintT(<<"DRIFT", ToJson([run |-> e.run, i |-> e.i, ev |-> e.ev, fields |-> d])>>)

Spec == Init /\ [][Next]_vars

Consumed == TLCGet("stats").diameter = Len(Rec) + 1
Done == l <= Len(Rec) \/ PrintT(<<"STRICT", ToJson([cnt EXCEPT !.accepted = IF ~skip /\ cnt.runs > 0 THEN @ + 1 ELSE @])>>)
=============================================================================
