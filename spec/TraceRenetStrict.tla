--------------------------- MODULE TraceRenetStrict ---------------------------
(***************************************************************************)
(* Strict pass (implementation -> specification): every event recorded     *)
(* from the real code must be exactly the event that the corresponding     *)
(* action of Renet.tla produces from the model state reached so far        *)
(* (results, emitted packets, projected state after the call).  A mismatch *)
(* is DRIFT: the model no longer describes the code.  It is reported with  *)
(* the differing fields; the rest of that run is skipped.                  *)
(***************************************************************************)
EXTENDS Renet, Json, IOUtils

Rec == ndJsonDeserialize(IOEnv.TRACE)

VARIABLES l, w, skip, cnt, lu
vars == <<l, w, skip, cnt, lu>>

Init == /\ l = 1
        /\ w = NewWorld
        /\ skip = FALSE
        /\ cnt = [runs |-> 0, matched |-> 0, drift |-> 0, accepted |-> 0]
        /\ lu = [s \in {"S", "C"} |-> <<>>]

\* The log of emitted packets only matters while a later event of the trace still delivers one of them.  The trace is known in
\* advance: every flush event carries `last_use`, the index of the last event of its run that delivers a packet of that flush
\* (0 = never).  Flushes past their last use are emptied (their place in the sequence stays), which keeps the model state --
\* and the cost of every step -- bounded by what is in flight instead of growing with the length of the run.
NOUSE == 1073741823
LastUse(e) == IF "last_use" \in DOMAIN e THEN e.last_use ELSE NOUSE
Dead(u, s, fl, i) == fl <= Len(u[s]) /\ u[s][fl] <= i
Prune(x, u, i) ==
    [x EXCEPT !.net = [s \in {"S", "C"} |-> [fl \in 1..Len(x.net[s]) |-> IF Dead(u, s, fl, i) THEN <<>> ELSE x.net[s][fl]]],
              !.dl = [k \in {y \in DOMAIN x.dl : ~Dead(u, y[1], y[2], i)} |-> x.dl[k]]]

\* fields of the predicted event that the recorded event contradicts
Diff(pred, rec, ignore) == {f \in (DOMAIN pred) \ ignore : f \in DOMAIN rec /\ pred[f] # rec[f]}

Predict(e) ==
    CASE e.ev = "send"   -> DoSend(w, e.side, e.ch, e.cid, e.len)
      [] e.ev = "recv"   -> DoRecv(w, e.side, e.ch)
      [] e.ev = "update" -> DoUpdate(w, e.side, e.dt)
      [] e.ev = "flush"  -> DoFlush(w, e.side)
      [] e.ev = "deliver" /\ e.label = "genuine" -> DoDeliver(w, e.side, e.fl, e.ix)
      [] e.ev = "deliver" /\ e.label # "genuine" -> DoHostile(w, e.side, e.p)
      [] e.ev = "api"    -> DoApi(w, e.side, e.call)

Known(e) == e.ev \in {"send", "recv", "update", "flush", "deliver", "api"}

\* the server-wide update is logged without a per-connection projection
Ignore(e) == IF e.ev = "update" /\ e.conn = 0 THEN {"conn", "st0", "st1"} ELSE {}

Next == /\ l <= Len(Rec)
        /\ l' = l + 1
        /\ LET e == Rec[l] IN
           IF e.ev = "reset"
           THEN /\ w' = NewWorld /\ skip' = FALSE /\ lu' = [s \in {"S", "C"} |-> <<>>]
                /\ cnt' = [cnt EXCEPT !.runs = @ + 1, !.accepted = IF ~skip /\ cnt.runs > 0 THEN @ + 1 ELSE @]
           ELSE IF skip THEN UNCHANGED <<w, skip, cnt, lu>>
           ELSE IF e.ev = "heal" THEN /\ w' = (IF e.lose THEN DoLose(w) ELSE w) /\ UNCHANGED <<skip, cnt, lu>>
           ELSE IF ~Known(e) THEN UNCHANGED <<w, skip, cnt, lu>>
           ELSE IF e.ev = "deliver" /\ e.label = "genuine" /\
                   ~(e.fl \in 1..Len(w.net[Other(e.side)]) /\ e.ix \in 1..Len(w.net[Other(e.side)][e.fl]))
           THEN \* the code emitted a packet the model did not predict (drift was reported at the flush)
                /\ skip' = TRUE /\ UNCHANGED <<w, lu>> /\ cnt' = [cnt EXCEPT !.drift = @ + 1]
                /\ PrintT(<<"DRIFT", ToJson([run |-> e.run, i |-> e.i, ev |-> e.ev, fields |-> {"no such packet in the model"}])>>)
           ELSE LET r == Predict(e)
                    d == Diff(r.ev, e, Ignore(e))
                IN IF d = {}
                   THEN LET u == IF e.ev = "flush" THEN [lu EXCEPT ![e.side] = Append(@, LastUse(e))] ELSE lu IN
                        /\ lu' = u /\ w' = TLCEval(Prune(r.w, u, e.i)) /\ skip' = FALSE /\ cnt' = [cnt EXCEPT !.matched = @ + 1]
                   ELSE /\ w' = w /\ lu' = lu /\ skip' = TRUE /\ cnt' = [cnt EXCEPT !.drift = @ + 1]
                        /\ PrintT(<<"DRIFT", ToJson([run |-> e.run, i |-> e.i, ev |-> e.ev, fields |-> d])>>)

Spec == Init /\ [][Next]_vars

Consumed == TLCGet("stats").diameter = Len(Rec) + 1
Done == l <= Len(Rec) \/ PrintT(<<"STRICT", ToJson([cnt EXCEPT !.accepted = IF ~skip /\ cnt.runs > 0 THEN @ + 1 ELSE @])>>)
=============================================================================
