\* netcode quick 4: one session; payloads in both directions presented in any order, replayed and re-addressed (8 steps).
SPECIFICATION Spec
CONSTANTS
  Tokens <- Toks_one
  Clients <- Clis_one
  MaxClients0 = 2
  ServerAddrs = 1
  TokenSingleUse = TRUE
  TokenTable = 2048
  MaxSteps = 9
  Addrs = {1, 2}
  Dts = {250}
  CraftToks = {}
  MaxPresent = 2
  Calls = {"exchange", "payload", "readdress", "deliver"}
  PumpPay = FALSE
  HealRounds = 0
  HealDt = 250
  Bound = 0
  PropsOn <- P_HS
  Export = TRUE
  ExportAll = FALSE
  ExportOneIn = 4
INVARIANT NoFlag
INVARIANT ExportInv
VIEW View
CHECK_DEADLOCK FALSE
