SPECIFICATION Spec
INVARIANT Done
POSTCONDITION Consumed
CHECK_DEADLOCK FALSE
