-------------------------- MODULE TraceNetcodeStrict --------------------------
(***************************************************************************)
(* Strict pass for the netcode layer (implementation -> specification):    *)
(* every event recorded from the real NetcodeServer / NetcodeClient while  *)
(* replaying a behaviour exported from MC_Netcode must be the event that   *)
(* the corresponding operator of Netcode.tla produces from the model state *)
(* reached so far: result, reply datagram (kind, key, sequence, length,    *)
(* challenge, payload), table snapshot (ids, addresses, user data, ages,   *)
(* pending addresses, clock), client status.  A mismatch is DRIFT.         *)
(* Tokens / Clients are the constants of the model configuration the       *)
(* behaviours were exported from.                                          *)
(***************************************************************************)
EXTENDS MC_Netcode, IOUtils

Rec == ndJsonDeserialize(IOEnv.TRACE)

VARIABLES l, skip, cnt
svars == <<l, w, skip, cnt, obs, ctl, hist>>
ww == w

SInit == /\ l = 1 /\ w = NewWorld /\ skip = FALSE
         /\ cnt = [runs |-> 0, matched |-> 0, drift |-> 0, accepted |-> 0]
         /\ obs = ObsInit /\ ctl = [steps |-> 0, tag |-> 1] /\ hist = <<>>

\* the parts of a datagram description both sides can know
DView(d) == IF d.kind = "None" THEN [kind |-> "None"]
            ELSE [kind |-> d.kind, key |-> d.key, proto |-> d.proto, seq |-> d.seq, len |-> d.len, tok |-> d.tok, cseq |-> d.cseq, cid |-> d.cid,
                  cud |-> d.cud, ptag |-> IF d.plen < 4 THEN 0 ELSE d.ptag,    \* the first four content bytes spell the tag: shorter payloads cannot tell tags apart
                  plen |-> d.plen, to |-> d.to]
OutsView(outs) == [i \in 1..Len(outs) |-> [type |-> outs[i].type, id |-> outs[i].id, addr |-> outs[i].addr, for |-> outs[i].for, d |-> DView(outs[i].d)]]

\* the event as the model predicts it, reduced to comparable fields
Predict(e) ==
    CASE e.ev = "sdeliver" ->
            LET r == ServerProcess(ww, e.from, e.d)
                k == IF e.d.emit >= 1 /\ e.d.emit <= Len(ww.net) THEN e.d.emit ELSE 0
                right == k # 0 /\ e.from = OriginAddr(ww, ww.net[k]) /\ e.d.label \in {"genuine", "replay"}
                w1 == [r.w EXCEPT !.pres = IF right THEN Put(@, k, Get(@, k, 0) + 1) ELSE @]
            IN [w |-> w1, v |-> [res |-> r.res, reply |-> DView(r.reply), snap1 |-> Snap(w1)]]
      [] e.ev = "cdeliver" ->
            LET r == ClientProcess(ww.cl[e.c], e.d)
                k == IF e.d.emit >= 1 /\ e.d.emit <= Len(ww.net) THEN e.d.emit ELSE 0
                w1 == [ww EXCEPT !.cl[e.c] = r.x, !.pres = IF k # 0 /\ e.d.label \in {"genuine", "replay"} THEN Put(@, k, Get(@, k, 0) + 1) ELSE @]
            IN [w |-> w1, v |-> [res |-> [some |-> r.some, ptag |-> IF r.some THEN e.d.ptag ELSE 0, plen |-> IF r.some THEN e.d.plen ELSE 0],
                                 cs1 |-> CSnap(w1, e.c)]]
      [] e.ev = "cupdate" -> LET r == DoCUpdate(ww, e.c, e.dt) IN [w |-> r.w, v |-> [out |-> DView(r.ev.out), cs1 |-> r.ev.cs1]]
      [] e.ev = "supdate" -> LET r == DoSUpdate(ww, e.dt) IN [w |-> r.w, v |-> [outs |-> OutsView(r.ev.outs), snap1 |-> r.ev.snap1]]
      [] e.ev = "cpayload" -> LET r == DoCPayload(ww, e.c, e.ptag, e.plen) IN [w |-> r.w, v |-> [ok |-> r.ev.ok, d |-> DView(r.ev.d)]]
      [] e.ev = "spayload" -> LET r == DoSPayload(ww, e.id, e.ptag, e.plen) IN [w |-> r.w, v |-> [ok |-> r.ev.ok, d |-> DView(r.ev.d), snap1 |-> r.ev.snap1]]
      [] e.ev = "sdisconnect" -> LET r == DoSDisconnect(ww, e.id) IN [w |-> r.w, v |-> [res |-> r.ev.res, d |-> DView(r.ev.d), snap1 |-> r.ev.snap1]]
      [] e.ev = "cdisconnect" -> LET r == DoCDisconnect(ww, e.c) IN [w |-> r.w, v |-> [d |-> DView(r.ev.d), cs1 |-> r.ev.cs1]]
      [] e.ev = "setmax" -> LET r == DoSetMax(ww, e.n) IN [w |-> r.w, v |-> [snap1 |-> r.ev.snap1]]

Recorded(e) ==
    CASE e.ev = "sdeliver" -> [res |-> e.res, reply |-> DView(e.reply), snap1 |-> e.snap1]
      [] e.ev = "cdeliver" -> [res |-> e.res, cs1 |-> e.cs1]
      [] e.ev = "cupdate" -> [out |-> DView(e.out), cs1 |-> e.cs1]
      [] e.ev = "supdate" -> [outs |-> OutsView(e.outs), snap1 |-> e.snap1]
      [] e.ev = "cpayload" -> [ok |-> e.ok, d |-> DView(e.d)]
      [] e.ev = "spayload" -> [ok |-> e.ok, d |-> DView(e.d), snap1 |-> e.snap1]
      [] e.ev = "sdisconnect" -> [res |-> e.res, d |-> DView(e.d), snap1 |-> e.snap1]
      [] e.ev = "cdisconnect" -> [d |-> DView(e.d), cs1 |-> e.cs1]
      [] e.ev = "setmax" -> [snap1 |-> e.snap1]

Known(e) == e.ev \in {"sdeliver", "cdeliver", "cupdate", "supdate", "cpayload", "spayload", "sdisconnect", "cdisconnect", "setmax"}

SNext == /\ l <= Len(Rec)
         /\ l' = l + 1
         /\ UNCHANGED <<obs, ctl, hist>>
         /\ LET e == Rec[l] IN
            IF e.ev = "reset"
            THEN /\ w' = NewWorld /\ skip' = FALSE
                 /\ cnt' = [cnt EXCEPT !.runs = @ + 1, !.accepted = IF ~skip /\ cnt.runs > 0 THEN @ + 1 ELSE @]
            ELSE IF skip \/ ~Known(e) THEN UNCHANGED <<w, skip, cnt>>
            ELSE IF e.ev \in {"cdeliver", "cupdate", "cpayload", "cdisconnect"} /\ e.c \notin DOMAIN ww.cl
            THEN UNCHANGED <<w, skip, cnt>>
            ELSE LET p == Predict(e)
                     rec == Recorded(e)
                     d == {f \in DOMAIN rec : p.v[f] # rec[f]}
                 IN IF d = {}
                    THEN /\ w' = TLCEval(p.w) /\ skip' = FALSE /\ cnt' = [cnt EXCEPT !.matched = @ + 1]
                    ELSE /\ w' = w /\ skip' = TRUE /\ cnt' = [cnt EXCEPT !.drift = @ + 1]
                         /\ PrintT(<<"DRIFT", ToJson([run |-> e.run, i |-> e.i, ev |-> e.ev, fields |-> d,
                                                      pred |-> ToString([f \in d |-> p.v[f]]), got |-> ToString([f \in d |-> rec[f]])])>>)

SSpec == SInit /\ [][SNext]_svars
Consumed == TLCGet("stats").diameter = Len(Rec) + 1
SDone == l <= Len(Rec) \/ PrintT(<<"STRICT", ToJson([cnt EXCEPT !.accepted = IF ~skip /\ cnt.runs > 0 THEN @ + 1 ELSE @])>>)
=============================================================================
