\* netcode: three identities, one slot at construction, the limit raised and lowered at run time between honest exchanges
\* and departures (8 steps): the table never exceeds the limit unless it was lowered, ids and addresses stay unique.
SPECIFICATION Spec
CONSTANTS
  Tokens <- Toks_three
  Clients <- Clis_three
  MaxClients0 = 1
  ServerAddrs = 1
  TokenSingleUse = TRUE
  TokenTable = 2048
  MaxSteps = 8
  Addrs = {1, 2, 3}
  Dts = {250}
  CraftToks = {}
  MaxPresent = 2
  Calls = {"exchange", "disconnect", "leave", "setmax"}
  PumpPay = FALSE
  HealRounds = 0
  HealDt = 250
  Bound = 0
  PropsOn <- P_HS
  Export = TRUE
  ExportAll = FALSE
  ExportOneIn = 2
INVARIANT NoFlag
INVARIANT ExportInv
VIEW View
CHECK_DEADLOCK FALSE
