\* C13 quick: reliable messages around the packing threshold, ids and sequences across varint width boundaries
SPECIFICATION Spec
CONSTANTS
  ChSC <- Ch_RO
  ChCS <- Ch_RO
  SeqBase = 60
  MidBase = 16381
  Budget = 60000
  Workload <- WL_pack
  MaxFlushS = 1
  MaxFlushC = 2
  MaxTicks = 0
  Dts = {300}
  MaxDeliver = 1
  HealDt = 300
  HealRounds = 1
  Bound <- NoBound
  HealLose = {FALSE}
  Reorder = TRUE
  RecvAnywhere = FALSE
  PropsOn <- P_C13
  MaxHostile = 0
  HostileSet = "none"
  ExportAll = TRUE
  Export = TRUE
INVARIANT NoFlag
INVARIANT ExportInv
VIEW View
CHECK_DEADLOCK FALSE
