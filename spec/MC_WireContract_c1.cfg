\* every canonical range list over 0..11 with at most 1 range (cap 1) x every arriving sequence number 0..11
SPECIFICATION CSpec
CONSTANTS
  ChSC <- NoCh
  ChCS <- NoCh
  Budget = 0
  SeqBase = 0
  MidBase = 0
  ACKCAP <- Cap1
  Universe = {0}
  MaxArrivals = 0
  Export = FALSE
  N = 11
INVARIANT AddContract
INVARIANT AckedContract
INVARIANT CodecContract
CHECK_DEADLOCK FALSE
