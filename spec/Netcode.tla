-------------------------------- MODULE Netcode --------------------------------
(***************************************************************************)
(* Implementation-shaped specification of the netcode layer               *)
(* (renetcode/src/server.rs, client.rs, packet.rs, replay_protection.rs,   *)
(* token.rs) with symbolic cryptography.                                   *)
(*                                                                         *)
(* A sealed datagram is a record [kind, key, proto, seq, ...]; opening it  *)
(* with key k under protocol p succeeds iff  key = k /\ proto = p /\ intact.*)
(* A connect token is a record; its private part opens under the server    *)
(* key iff it was sealed under it, for the protocol id and expiry bound in *)
(* the additional data.  This is the Dolev-Yao reading of the AEADs: the   *)
(* primitives are trusted, the discipline around them is what is checked.  *)
(*                                                                         *)
(* One operator per public call; each returns the new world and the event  *)
(* the Rust harness logs for the same call (same fields), so that the      *)
(* observer NetcodeObs judges model behaviours and recorded traces alike.  *)
(***************************************************************************)
EXTENDS Integers, Sequences, FiniteSets, TLC, NetcodeObs

CONSTANTS Tokens,      \* function token name -> [id, ud, hosts, expire, timeout, sealed, proto, tamper, ok (, cproto)]
          Clients,     \* function client name -> [tok, addr]
          MaxClients0, \* max_clients at construction
          ServerAddrs, \* number of public addresses (1..ServerAddrs)
          TokenTable,  \* size of the table binding used tokens to addresses (code: NETCODE_MAX_CLIENTS * 2 = 2048, server.rs:51)
          TokenSingleUse \* intended design (TRUE): a token whose handshake completed is not honoured again.  The code honours
                         \* it again from the same address (FALSE, known finding D18: replayed handshakes re-establish sessions)

SEND_RATE == 250
\* ServerAuthentication (server.rs:92-99, 124-133): Secure = connect tokens are sealed with the server's private key "K" and must
\* list one of its public addresses; Unsecure = the key is all zeroes ("Z": any client can make its own token, as
\* ClientAuthentication::Unsecure does) and the host list is not looked at.  A definition so that a configuration may override it.
Secure0 == TRUE
GBASE == 536870912      \* the harness maps the global sequence 2^63 + k to 2^29 + k
REQLEN == 1078

SeqBytes(s) == IF s >= GBASE THEN 8 ELSE IF s < 256 THEN 1 ELSE IF s < 65536 THEN 2 ELSE IF s < 16777216 THEN 3 ELSE 4
DLen(kind, seq, plen) ==
    CASE kind = "Request" -> REQLEN
      [] kind \in {"Challenge", "Response"} -> 1 + SeqBytes(seq) + 8 + 300 + 16
      [] kind = "KeepAlive" -> 1 + SeqBytes(seq) + 8 + 16
      [] kind = "Payload" -> 1 + SeqBytes(seq) + plen + 16
      [] OTHER -> 1 + SeqBytes(seq) + 16          \* Denied, Disconnect

NoD == [emit |-> 0, org |-> "none", kind |-> "None", key |-> "none", proto |-> "P", seq |-> 0, len |-> 0, tok |-> "none", cseq |-> 0, cid |-> 0,
        cud |-> 0, ptag |-> 0, plen |-> 0, label |-> "none", nth |-> 0, intact |-> TRUE, h |-> 0, to |-> 0, nonauth |-> FALSE]

\* the protocol id the holder of a token works with is the one in the token's PUBLIC part (client.rs:196, 262, 358); it differs
\* from the sealed one only for tokens whose public part was tampered with
CProto(T) == IF "cproto" \in DOMAIN T THEN T.cproto ELSE T.proto

MkD(kind, key, tok, seq, to, x) ==
    [NoD EXCEPT !.kind = kind, !.key = key, !.tok = tok, !.seq = seq, !.to = to, !.label = "emitted",
                !.cseq = x.cseq, !.cid = x.cid, !.cud = x.cud, !.ptag = x.ptag, !.plen = x.plen,
                !.len = DLen(kind, seq, x.plen)]
X0 == [cseq |-> 0, cid |-> 0, cud |-> 0, ptag |-> 0, plen |-> 0]

(***************************************************************************)
(* World                                                                   *)
(***************************************************************************)
NoConn == [used |-> FALSE, id |-> 0, addr |-> 0, tok |-> "none", seq |-> 0, ud |-> 0, lastRecv |-> 0, lastSend |-> 0, timeout |-> 0, expire |-> 0,
           confirmed |-> FALSE, win |-> {}, winMax |-> 0]

NewClient(c) ==
    [state |-> "Req", reason |-> "None", tok |-> Clients[c].tok, addr |-> Clients[c].addr, seq |-> 0, cseq |-> 0, ccid |-> 0, ccud |-> 0,
     lastSend |-> 0 - 1, lastRecv |-> 0, now |-> 0, start |-> 0, hostIdx |-> 1, win |-> {}, winMax |-> 0]

NewWorld ==
    [secure |-> Secure0, slots |-> [i \in 1..MaxClients0 |-> NoConn], pending |-> <<>>, entries |-> <<>>, maxc |-> MaxClients0, chalSeq |-> 0, gseq |-> GBASE, now |-> 0,
     cl |-> [c \in DOMAIN Clients |-> NewClient(c)],
     consumed |-> {},     \* tokens whose handshake completed
     net |-> <<>>,        \* every datagram emitted so far (abstract), index = emission number
     pres |-> <<>>]       \* emission index -> number of unmodified presentations from the right address

Emit(w, d, org) ==
    LET k == Len(w.net) + 1
        same == {j \in 1..Len(w.net) : [w.net[j] EXCEPT !.emit = 0, !.h = 0, !.org = "x"] = [d EXCEPT !.emit = 0, !.h = 0, !.org = "x"]}
        h == IF same = {} THEN k ELSE w.net[CHOOSE j \in same : TRUE].h
        d1 == [d EXCEPT !.emit = k, !.org = org, !.h = h]
    IN [w |-> [w EXCEPT !.net = Append(@, d1)], d |-> d1]

\* connect_token_entries (server.rs:51, 175-207): slots are filled in index order and never emptied, so the used slots are a
\* prefix -- a sequence of [tok, addr, time].  A token that is not in the table takes the first empty slot or, when the table
\* is full, replaces the entry with the smallest time (lowest index among equals): from then on the replaced token is no longer
\* bound to the address that used it first (known finding D21).
EntryIdx(w, tok) == IF \E i \in 1..Len(w.entries) : w.entries[i].tok = tok
                    THEN CHOOSE i \in 1..Len(w.entries) : w.entries[i].tok = tok ELSE 0
BoundElsewhere(w, tok, a) == EntryIdx(w, tok) # 0 /\ w.entries[EntryIdx(w, tok)].addr # a
AddEntry(w, tok, a) ==
    IF EntryIdx(w, tok) # 0 THEN w.entries
    ELSE LET e == [tok |-> tok, addr |-> a, time |-> w.now] IN
         IF Len(w.entries) < TokenTable THEN Append(w.entries, e)
         ELSE LET oldest == CHOOSE i \in 1..Len(w.entries) :
                                /\ \A j \in 1..Len(w.entries) : w.entries[i].time <= w.entries[j].time
                                /\ \A j \in 1..(i - 1) : w.entries[j].time > w.entries[i].time
              IN [w.entries EXCEPT ![oldest] = e]

ConnIdx(w, pred(_)) == IF \E i \in 1..Len(w.slots) : w.slots[i].used /\ pred(w.slots[i])
                       THEN CHOOSE i \in 1..Len(w.slots) : w.slots[i].used /\ pred(w.slots[i]) /\
                                \A j \in 1..Len(w.slots) : (w.slots[j].used /\ pred(w.slots[j])) => i <= j
                       ELSE 0
ByAddr(w, a) == ConnIdx(w, LAMBDA c : c.addr = a)
ById(w, id) == ConnIdx(w, LAMBDA c : c.id = id)
NConn(w) == Cardinality({i \in 1..Len(w.slots) : w.slots[i].used})
FreeSlot(w) == IF \E i \in 1..Len(w.slots) : ~w.slots[i].used
               THEN CHOOSE i \in 1..Len(w.slots) : ~w.slots[i].used /\ \A j \in 1..Len(w.slots) : ~w.slots[j].used => i <= j
               ELSE 0

RECURSIVE SortedIds(_)
SortedIds(S) == IF S = {} THEN <<>> ELSE LET m == CHOOSE x \in S : \A y \in S : x <= y IN <<m>> \o SortedIds(S \ {m})

Snap(w) ==
    LET ids == SortedIds({w.slots[i].id : i \in {j \in 1..Len(w.slots) : w.slots[j].used}})
        ent(id) == LET c == w.slots[ById(w, id)] IN [id |-> id, addr |-> c.addr, ud |-> c.ud, age |-> w.now - c.lastRecv, is |-> TRUE]
    IN [clients |-> [i \in 1..Len(ids) |-> ent(ids[i])], n |-> NConn(w), max |-> w.maxc,
        pending |-> SortedIds(DOMAIN w.pending), t |-> w.now]

CSnap(w, c) == LET x == w.cl[c] IN
    [status |-> IF x.state = "Conn" THEN "Connected" ELSE IF x.state = "Disc" THEN "Disc" ELSE "Connecting", reason |-> x.reason,
     age |-> x.now - x.lastRecv, t |-> x.now,
     saddr |-> 100 + Tokens[x.tok].hostseq[IF x.hostIdx <= Len(Tokens[x.tok].hostseq) THEN x.hostIdx ELSE Len(Tokens[x.tok].hostseq)]]

\* replay window (replay_protection.rs), window size WINDOW
Already(win, winMax, s) == s + WINDOW <= winMax \/ s \in win
Advance(c, s) == [c EXCEPT !.win = {x \in (@ \cup {s}) : x + WINDOW > (IF s > c.winMax THEN s ELSE c.winMax)}, !.winMax = IF s > @ THEN s ELSE @]

(***************************************************************************)
(* Server: process_packet (server.rs:389)                                  *)
(***************************************************************************)
NoRes == [type |-> "None", id |-> 0, addr |-> 0, ud |-> 0, ptag |-> 0, plen |-> 0]

\* can the private part of the request be opened, and is the request acceptable ? (handle_connection_request 244-269)
RequestOK(w, d) ==
    /\ d.tok \in DOMAIN Tokens
    /\ d.intact
    /\ LET T == Tokens[d.tok] IN
       /\ d.proto = "P" /\ T.proto = "P" /\ T.sealed = (IF w.secure THEN "K" ELSE "Z") /\ T.tamper = "none" /\ T.ok
       /\ (w.now \div 1000) < T.expire
       /\ (w.secure => \E h \in T.hosts : h >= 1 /\ h <= ServerAddrs)

HandleRequest(w, a, d) ==
    IF ~RequestOK(w, d) THEN [w |-> w, res |-> NoRes, reply |-> NoD]
    ELSE LET T == Tokens[d.tok] IN
    IF ByAddr(w, a) # 0 \/ ById(w, T.id) # 0 THEN [w |-> w, res |-> NoRes, reply |-> NoD]
    ELSE IF BoundElsewhere(w, d.tok, a) THEN [w |-> w, res |-> NoRes, reply |-> NoD]
    ELSE IF TokenSingleUse /\ d.tok \in w.consumed THEN [w |-> w, res |-> NoRes, reply |-> NoD]
    ELSE LET w1 == [w EXCEPT !.entries = AddEntry(w, d.tok, a)] IN
    IF NConn(w1) >= w1.maxc
    THEN LET e == Emit([w1 EXCEPT !.pending = [x \in (DOMAIN @) \ {a} |-> @[x]], !.gseq = @ + 1],
                       MkD("Denied", "s2c:" \o d.tok, d.tok, w1.gseq, a, X0), "S")
         IN [w |-> e.w, res |-> [NoRes EXCEPT !.type = "PacketToSend", !.addr = a], reply |-> e.d]
    ELSE LET cs == w1.chalSeq + 1
             e == Emit([w1 EXCEPT !.chalSeq = cs, !.gseq = @ + 1],
                       MkD("Challenge", "s2c:" \o d.tok, d.tok, w1.gseq, a, [X0 EXCEPT !.cseq = cs, !.cid = T.id, !.cud = T.ud]), "S")
             keep == a \in DOMAIN e.w.pending /\ e.w.pending[a].tok = d.tok
             p == IF keep THEN e.w.pending[a]
                  ELSE [NoConn EXCEPT !.used = TRUE, !.id = T.id, !.addr = a, !.tok = d.tok, !.ud = T.ud, !.timeout = T.timeout, !.expire = T.expire]
             p1 == [p EXCEPT !.lastRecv = w.now, !.lastSend = w.now]
         IN [w |-> [e.w EXCEPT !.pending = Put(@, a, p1)], res |-> [NoRes EXCEPT !.type = "PacketToSend", !.addr = a], reply |-> e.d]

\* a sealed datagram opens under the keys of connection c ?
Opens(d, c) == d.intact /\ d.key = "c2s:" \o c.tok /\ d.proto = "P"

ServerProcess(w, a, d) ==
    IF d.len < 18 \/ d.kind = "Garbage" THEN [w |-> w, res |-> NoRes, reply |-> NoD]
    ELSE LET i == ByAddr(w, a) IN
    IF i # 0 THEN
        \* connected address
        LET c == w.slots[i] IN
        IF d.kind = "Request" THEN [w |-> w, res |-> NoRes, reply |-> NoD]        \* parsed without a key, ignored
        ELSE IF ~Opens(d, c) THEN [w |-> w, res |-> NoRes, reply |-> NoD]
        ELSE IF d.kind \in {"KeepAlive", "Payload", "Disconnect"} /\ Already(c.win, c.winMax, d.seq) THEN [w |-> w, res |-> NoRes, reply |-> NoD]
        ELSE IF d.kind = "Disconnect"
             THEN [w |-> [w EXCEPT !.slots[i] = NoConn], res |-> [NoRes EXCEPT !.type = "ClientDisconnected", !.id = c.id, !.addr = a], reply |-> NoD]
        ELSE IF d.kind = "Payload"
             THEN [w |-> [w EXCEPT !.slots[i] = [Advance(c, d.seq) EXCEPT !.lastRecv = w.now, !.confirmed = TRUE]],
                   res |-> [NoRes EXCEPT !.type = "Payload", !.id = c.id, !.ptag = d.ptag, !.plen = d.plen], reply |-> NoD]
        ELSE IF d.kind = "KeepAlive"
             THEN [w |-> [w EXCEPT !.slots[i] = [Advance(c, d.seq) EXCEPT !.lastRecv = w.now, !.confirmed = TRUE]], res |-> NoRes, reply |-> NoD]
        ELSE [w |-> w, res |-> NoRes, reply |-> NoD]
    ELSE IF a \in DOMAIN w.pending THEN
        LET p == w.pending[a] IN
        IF d.kind = "Request" THEN HandleRequest(w, a, d)
        ELSE IF ~Opens(d, p) THEN [w |-> w, res |-> NoRes, reply |-> NoD]
        ELSE IF d.kind = "Response" THEN
            \* the echoed challenge must open under the challenge key (cid >= 0) and be the one issued for this request
            IF d.cid < 0 \/ d.cid # p.id \/ d.cud # p.ud THEN [w |-> w, res |-> NoRes, reply |-> NoD]
            ELSE LET w1 == [w EXCEPT !.pending = [x \in (DOMAIN @) \ {a} |-> @[x]]] IN
                 IF ById(w1, d.cid) # 0 THEN [w |-> w1, res |-> NoRes, reply |-> NoD]
                 ELSE IF FreeSlot(w1) = 0
                      THEN LET e == Emit([w1 EXCEPT !.gseq = @ + 1], MkD("Denied", "s2c:" \o p.tok, p.tok, w1.gseq, a, X0), "S")
                           IN [w |-> e.w, res |-> [NoRes EXCEPT !.type = "PacketToSend", !.addr = a], reply |-> e.d]
                      ELSE LET s == FreeSlot(w1)
                               e == Emit(w1, MkD("KeepAlive", "s2c:" \o p.tok, p.tok, p.seq, a, X0), "S")
                               c == [p EXCEPT !.seq = @ + 1, !.lastSend = w.now, !.lastRecv = w.now]
                           IN [w |-> [e.w EXCEPT !.slots[s] = c, !.consumed = @ \cup {p.tok}],
                               res |-> [NoRes EXCEPT !.type = "ClientConnected", !.id = p.id, !.addr = a, !.ud = p.ud], reply |-> e.d]
        ELSE [w |-> w, res |-> NoRes, reply |-> NoD]
    ELSE IF d.kind = "Request" THEN HandleRequest(w, a, d)
    ELSE [w |-> w, res |-> NoRes, reply |-> NoD]

(***************************************************************************)
(* Server: update + update_client for every id (server.rs:572, 599)        *)
(***************************************************************************)
RECURSIVE UpdClients(_, _, _)
UpdClients(w, ids, outs) ==
    IF ids = <<>> THEN [w |-> w, outs |-> outs]
    ELSE LET id == Head(ids)
             i == ById(w, id)
         IN IF i = 0 THEN UpdClients(w, Tail(ids), outs)
            ELSE LET c == w.slots[i] IN
            IF c.timeout > 0 /\ c.lastRecv + c.timeout * 1000 < w.now
            THEN LET e == Emit([w EXCEPT !.slots[i] = NoConn], MkD("Disconnect", "s2c:" \o c.tok, c.tok, c.seq, c.addr, X0), "S")
                 IN UpdClients(e.w, Tail(ids), Append(outs, [NoRes EXCEPT !.type = "ClientDisconnected", !.id = id, !.addr = c.addr] @@ [for |-> id, d |-> e.d]))
            ELSE IF c.lastSend + SEND_RATE <= w.now
            THEN LET e == Emit([w EXCEPT !.slots[i].seq = @ + 1, !.slots[i].lastSend = w.now], MkD("KeepAlive", "s2c:" \o c.tok, c.tok, c.seq, c.addr, X0), "S")
                 IN UpdClients(e.w, Tail(ids), Append(outs, [NoRes EXCEPT !.type = "PacketToSend", !.addr = c.addr] @@ [for |-> id, d |-> e.d]))
            ELSE UpdClients(w, Tail(ids), Append(outs, NoRes @@ [for |-> id, d |-> NoD]))

DoSUpdate(w, dt) ==
    LET now == w.now + dt
        w1 == [w EXCEPT !.now = now, !.pending = [a \in {x \in DOMAIN @ : ~((now \div 1000) > @[x].expire)} |-> @[a]]]
        \* clients_id() lists the slots in order
        ids == [j \in 1..Cardinality({i \in 1..Len(w1.slots) : w1.slots[i].used}) |->
                  w1.slots[CHOOSE i \in 1..Len(w1.slots) : w1.slots[i].used /\ Cardinality({x \in 1..i : w1.slots[x].used}) = j].id]
        r == UpdClients(w1, ids, <<>>)
    IN [w |-> r.w, ev |-> [ev |-> "supdate", dt |-> dt, outs |-> r.outs, snap0 |-> Snap(w), snap1 |-> Snap(r.w), panic |-> FALSE]]

(***************************************************************************)
(* Presenting a datagram to the server (harness step sdeliver)             *)
(***************************************************************************)
OriginAddr(w, d) == IF d.org \in DOMAIN Clients THEN Clients[d.org].addr ELSE 0

DoSDeliver(w, k, from) ==
    LET d0 == w.net[k]
        n == IF k \in DOMAIN w.pres THEN w.pres[k] ELSE 0
        right == from = OriginAddr(w, d0)
        label == IF ~right THEN "readdressed" ELSE IF n = 0 THEN "genuine" ELSE "replay"
        d == [d0 EXCEPT !.label = label, !.nth = n]
        r == ServerProcess(w, from, d)
        w1 == [r.w EXCEPT !.pres = IF right THEN Put(@, k, n + 1) ELSE @]
        ev == [ev |-> "sdeliver", from |-> from, d |-> d, res |-> r.res, reply |-> r.reply, snap0 |-> Snap(w), snap1 |-> Snap(w1), panic |-> FALSE]
    IN [w |-> w1, ev |-> ev]

\* the attacker seals a response with keys it owns (token tk) echoing the challenge of an emitted Challenge / Response datagram
DoSCraftResponse(w, tk, k, from, seq) ==
    LET src == w.net[k]
        d == [MkD("Response", "c2s:" \o tk, tk, seq, 101, [X0 EXCEPT !.cseq = src.cseq, !.cid = src.cid, !.cud = src.cud])
                EXCEPT !.label = "crafted", !.org = "attacker"]
        r == ServerProcess(w, from, d)
        ev == [ev |-> "sdeliver", from |-> from, d |-> d, res |-> r.res, reply |-> r.reply, snap0 |-> Snap(w), snap1 |-> Snap(r.w), panic |-> FALSE]
    IN [w |-> r.w, ev |-> ev]

(***************************************************************************)
(* Client (client.rs)                                                      *)
(***************************************************************************)
DoCUpdate(w, c, dt) ==
    LET x == w.cl[c]
        T == Tokens[x.tok]
        now == x.now + dt
        timedOut == T.timeout > 0 /\ x.lastRecv + T.timeout * 1000 < now
        x1 == [x EXCEPT !.now = now]
        x2 == IF x1.state \in {"Req", "Resp"} THEN
                  IF (now - x1.start) \div 1000 >= T.expire - T.create THEN [x1 EXCEPT !.state = "Disc", !.reason = "ConnectTokenExpired"]
                  ELSE IF timedOut THEN
                       IF x1.hostIdx + 1 > Len(T.hostseq)
                       THEN [x1 EXCEPT !.state = "Disc", !.reason = IF x1.state = "Resp" THEN "ConnectionResponseTimedOut" ELSE "ConnectionRequestTimedOut",
                                       !.hostIdx = @ + 1]
                       ELSE [x1 EXCEPT !.state = "Req", !.hostIdx = @ + 1, !.start = now, !.lastSend = 0 - 1, !.lastRecv = now, !.cseq = 0]
                  ELSE x1
              ELSE IF x1.state = "Conn" /\ timedOut THEN [x1 EXCEPT !.state = "Disc", !.reason = "ConnectionTimedOut"]
              ELSE x1
        \* update_internal_state returned an error (expired, gave up, timed out, already disconnected) : nothing is sent
        failed == x2.state = "Disc"
        gate == x2.lastSend >= 0 /\ now - x2.lastSend < SEND_RATE
        sends == ~failed /\ ~gate
        to == 100 + T.hostseq[IF x2.hostIdx <= Len(T.hostseq) THEN x2.hostIdx ELSE Len(T.hostseq)]
        d0 == CASE x2.state = "Req" -> MkD("Request", "none", x2.tok, 0, to, X0)
                [] x2.state = "Resp" -> MkD("Response", "c2s:" \o x2.tok, x2.tok, x2.seq, to, [X0 EXCEPT !.cseq = x2.cseq, !.cid = x2.ccid, !.cud = x2.ccud])
                [] OTHER -> MkD("KeepAlive", "c2s:" \o x2.tok, x2.tok, x2.seq, to, X0)
        d == [d0 EXCEPT !.proto = CProto(T)]
        x3 == IF sends THEN [x2 EXCEPT !.lastSend = now, !.seq = @ + 1] ELSE x2
        w1 == [w EXCEPT !.cl[c] = x3]
        e == IF sends THEN Emit(w1, d, c) ELSE [w |-> w1, d |-> NoD]
        ev == [ev |-> "cupdate", c |-> c, dt |-> dt, out |-> e.d, cs0 |-> CSnap(w, c), cs1 |-> CSnap(e.w, c), panic |-> FALSE]
    IN [w |-> e.w, ev |-> ev]

ClientProcess(x, d) ==
    IF d.len < 18 \/ d.kind = "Garbage" \/ d.kind = "Request" THEN [x |-> x, some |-> FALSE]
    ELSE IF ~(d.intact /\ d.key = "s2c:" \o x.tok /\ d.proto = CProto(Tokens[x.tok])) THEN [x |-> x, some |-> FALSE]
    ELSE IF d.kind \in {"KeepAlive", "Payload", "Disconnect"} /\ Already(x.win, x.winMax, d.seq) THEN [x |-> x, some |-> FALSE]
    ELSE LET y == IF d.kind \in {"KeepAlive", "Payload", "Disconnect"} THEN Advance(x, d.seq) ELSE x IN
         CASE d.kind = "Denied" /\ y.state \in {"Req", "Resp"} -> [x |-> [y EXCEPT !.state = "Disc", !.reason = "ConnectionDenied", !.lastRecv = y.now], some |-> FALSE]
           [] d.kind = "Challenge" /\ y.state = "Req" ->
                [x |-> [y EXCEPT !.state = "Resp", !.cseq = d.cseq, !.ccid = d.cid, !.ccud = d.cud, !.lastRecv = y.now, !.lastSend = 0 - 1], some |-> FALSE]
           [] d.kind = "KeepAlive" /\ y.state = "Conn" -> [x |-> [y EXCEPT !.lastRecv = y.now], some |-> FALSE]
           [] d.kind = "KeepAlive" /\ y.state = "Resp" -> [x |-> [y EXCEPT !.state = "Conn", !.lastRecv = y.now], some |-> FALSE]
           [] d.kind = "Payload" /\ y.state = "Conn" -> [x |-> [y EXCEPT !.lastRecv = y.now], some |-> TRUE]
           [] d.kind = "Disconnect" /\ y.state = "Conn" -> [x |-> [y EXCEPT !.state = "Disc", !.reason = "DisconnectedByServer", !.lastRecv = y.now], some |-> FALSE]
           [] OTHER -> [x |-> y, some |-> FALSE]

DoCDeliver(w, c, k) ==
    LET d0 == w.net[k]
        n == IF k \in DOMAIN w.pres THEN w.pres[k] ELSE 0
        mine == d0.org = "S" /\ d0.to = w.cl[c].addr
        label == IF ~mine THEN "readdressed" ELSE IF n = 0 THEN "genuine" ELSE "replay"
        d == [d0 EXCEPT !.label = label, !.nth = n]
        r == ClientProcess(w.cl[c], d)
        w1 == [w EXCEPT !.cl[c] = r.x, !.pres = IF mine THEN Put(@, k, n + 1) ELSE @]
        ev == [ev |-> "cdeliver", c |-> c, d |-> d, res |-> [some |-> r.some, ptag |-> IF r.some THEN d.ptag ELSE 0, plen |-> IF r.some THEN d.plen ELSE 0],
               cs0 |-> CSnap(w, c), cs1 |-> CSnap(w1, c), panic |-> FALSE]
    IN [w |-> w1, ev |-> ev]

DoCPayload(w, c, tag, plen) ==
    LET x == w.cl[c]
        ok == x.state = "Conn"
        e == IF ok THEN Emit([w EXCEPT !.cl[c].seq = @ + 1, !.cl[c].lastSend = x.now],
                             [MkD("Payload", "c2s:" \o x.tok, x.tok, x.seq, 100 + Tokens[x.tok].hostseq[x.hostIdx], [X0 EXCEPT !.ptag = tag, !.plen = plen])
                                EXCEPT !.proto = CProto(Tokens[x.tok])], c)
             ELSE [w |-> w, d |-> NoD]
        ev == [ev |-> "cpayload", c |-> c, ptag |-> tag, plen |-> plen, ok |-> ok, d |-> e.d, cs0 |-> CSnap(w, c), cs1 |-> CSnap(e.w, c), panic |-> FALSE]
    IN [w |-> e.w, ev |-> ev]

DoSPayload(w, id, tag, plen) ==
    LET i == ById(w, id)
        ok == i # 0
        \* a payload postpones the next keep-alive only once the client confirmed the connection (server.rs:380-384): until then it
        \* may still be waiting for the keep-alive that tells it that it is connected
        e == IF ok THEN LET c == w.slots[i] IN
                        Emit([w EXCEPT !.slots[i].seq = @ + 1, !.slots[i].lastSend = IF c.confirmed THEN w.now ELSE @],
                             MkD("Payload", "s2c:" \o c.tok, c.tok, c.seq, c.addr, [X0 EXCEPT !.ptag = tag, !.plen = plen]), "S")
             ELSE [w |-> w, d |-> NoD]
        ev == [ev |-> "spayload", id |-> id, ptag |-> tag, plen |-> plen, ok |-> ok, d |-> e.d, snap0 |-> Snap(w), snap1 |-> Snap(e.w), panic |-> FALSE]
    IN [w |-> e.w, ev |-> ev]

DoSDisconnect(w, id) ==
    LET i == ById(w, id) IN
    IF i = 0 THEN [w |-> w, ev |-> [ev |-> "sdisconnect", id |-> id, res |-> NoRes, d |-> NoD, snap0 |-> Snap(w), snap1 |-> Snap(w), panic |-> FALSE]]
    ELSE LET c == w.slots[i]
             e == Emit([w EXCEPT !.slots[i] = NoConn], MkD("Disconnect", "s2c:" \o c.tok, c.tok, c.seq, c.addr, X0), "S")
         IN [w |-> e.w, ev |-> [ev |-> "sdisconnect", id |-> id, res |-> [NoRes EXCEPT !.type = "ClientDisconnected", !.id = id, !.addr = c.addr], d |-> e.d,
                                snap0 |-> Snap(w), snap1 |-> Snap(e.w), panic |-> FALSE]]

DoCDisconnect(w, c) ==
    LET x == w.cl[c]
        e == Emit([w EXCEPT !.cl[c].state = "Disc", !.cl[c].reason = "DisconnectedByClient"],
                  [MkD("Disconnect", "c2s:" \o x.tok, x.tok, x.seq, 100 + Tokens[x.tok].hostseq[IF x.hostIdx <= Len(Tokens[x.tok].hostseq) THEN x.hostIdx ELSE 1], X0)
                     EXCEPT !.proto = CProto(Tokens[x.tok])], c)
    IN [w |-> e.w, ev |-> [ev |-> "cdisconnect", c |-> c, d |-> e.d, cs0 |-> CSnap(w, c), cs1 |-> CSnap(e.w, c), panic |-> FALSE]]

(***************************************************************************)
(* Composite: one good round (harness step `pump`): every listed client    *)
(* updates, its datagram (if it is for the live server address) reaches    *)
(* the server, the reply reaches the client; then the server updates and   *)
(* each datagram it emits reaches the listed client it is addressed to.    *)
(***************************************************************************)
PumpClient(w, c, dt) ==
    LET r1 == DoCUpdate(w, c, dt)
        sent == r1.ev.out.kind # "None" /\ r1.ev.out.to = 101          \* datagrams for a silent server address are lost
        r2 == IF sent THEN DoSDeliver(r1.w, Len(r1.w.net), Clients[c].addr) ELSE [w |-> r1.w, ev |-> r1.ev]
        replied == sent /\ r2.ev.reply.kind # "None"
        r3 == IF replied THEN DoCDeliver(r2.w, c, Len(r2.w.net)) ELSE [w |-> r2.w, ev |-> r2.ev]
    IN [w |-> r3.w, evs |-> <<r1.ev>> \o (IF sent THEN <<r2.ev>> ELSE <<>>) \o (IF replied THEN <<r3.ev>> ELSE <<>>)]

RECURSIVE PumpClients(_, _, _)
PumpClients(w, cs, dt) ==
    IF cs = <<>> THEN [w |-> w, evs |-> <<>>]
    ELSE LET r == PumpClient(w, Head(cs), dt)
             rest == PumpClients(r.w, Tail(cs), dt)
         IN [w |-> rest.w, evs |-> r.evs \o rest.evs]

PumpServer(w, cs, dt) ==
    LET r == DoSUpdate(w, dt)
        n0 == Len(w.net)
        F[k \in n0..Len(r.w.net)] ==
            IF k = n0 THEN [w |-> r.w, evs |-> <<r.ev>>]
            ELSE LET prev == F[k - 1]
                     targets == {i \in 1..Len(cs) : prev.w.cl[cs[i]].addr = prev.w.net[k].to}
                 IN IF targets = {} THEN prev
                    ELSE LET c == cs[CHOOSE i \in targets : \A j \in targets : i <= j]
                             x == DoCDeliver(prev.w, c, k)
                         IN [w |-> x.w, evs |-> Append(prev.evs, x.ev)]
    IN F[Len(r.w.net)]

\* the server application sends one payload to each listed id (pay = sequence of [id, tag]); each reaches the listed client it
\* is addressed to
RECURSIVE PumpPayloads(_, _, _)
PumpPayloads(w, cs, pay) ==
    IF pay = <<>> THEN [w |-> w, evs |-> <<>>]
    ELSE LET r == DoSPayload(w, Head(pay).id, Head(pay).tag, 8)
             k == Len(r.w.net)
             targets == IF r.ev.ok THEN {i \in 1..Len(cs) : r.w.cl[cs[i]].addr = r.w.net[k].to} ELSE {}
             r2 == IF targets = {} THEN [w |-> r.w, evs |-> <<r.ev>>]
                   ELSE LET x == DoCDeliver(r.w, cs[CHOOSE i \in targets : \A j \in targets : i <= j], k) IN [w |-> x.w, evs |-> <<r.ev, x.ev>>]
             rest == PumpPayloads(r2.w, cs, Tail(pay))
         IN [w |-> rest.w, evs |-> r2.evs \o rest.evs]

DoPump(w, cs, dt, pay) ==
    LET r1 == PumpClients(w, cs, dt)
        rp == PumpPayloads(r1.w, cs, pay)
        r2 == PumpServer(rp.w, cs, dt)
    IN [w |-> r2.w, evs |-> r1.evs \o rp.evs \o r2.evs \o <<[ev |-> "round_end", cs |-> cs, panic |-> FALSE]>>]

DoSetMax(w, n) ==
    LET w1 == [w EXCEPT !.maxc = n, !.slots = IF n > Len(@) THEN @ \o [i \in 1..(n - Len(@)) |-> NoConn] ELSE @]
    IN [w |-> w1, ev |-> [ev |-> "setmax", n |-> n, snap0 |-> Snap(w), snap1 |-> Snap(w1), panic |-> FALSE]]

=============================================================================
