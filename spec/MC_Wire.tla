------------------------------- MODULE MC_Wire -------------------------------
(***************************************************************************)
(* Pure wire structures of the message layer, model-checked on their own:  *)
(*  - the delta coding of ack ranges (packet.rs:146-206 encode, 300-345    *)
(*    decode): Decode(Encode(r)) = r for every sorted, non-adjacent list   *)
(*    of half-open ranges that add_pending_ack can produce;                *)
(*  - add_pending_ack / the range list (remote_connection.rs:615-661) as   *)
(*    transcribed in Renet.tla (AddPend), with a small cap: after any      *)
(*    sequence of arrivals the list is sorted, disjoint, non-adjacent,     *)
(*    within the cap, and denotes only sequence numbers that arrived.      *)
(* Every reachable range list is exported as a round-trip case for the     *)
(* real encoder / decoder (shifted across the varint width boundaries).    *)
(***************************************************************************)
EXTENDS Renet, Json

CONSTANTS Universe, MaxArrivals, Export

VARIABLES pend, rcvd, n
vars == <<pend, rcvd, n>>

\* encode: fields written after the sequence (packet.rs:173-200)
EncodeAck(rs) ==
    LET k == Len(rs)
        last == rs[k]
        F[i \in 0..(k - 1)] ==     \* i = number of remaining ranges already written
            IF i = 0 THEN <<last[2] - 1, (last[2] - 1) - last[1], k - 1>>
            ELSE LET cur == rs[k - i]
                     prevStart == rs[k - i + 1][1]
                 IN F[i - 1] \o <<prevStart - cur[2] - 1, (cur[2] - 1) - cur[1]>>
    IN F[k - 1]

\* decode (packet.rs:300-345); "invalid" when a check fails
DecodeAck(f) ==
    LET firstEnd == f[1]
        firstSize == f[2]
        nrem == f[3]
    IN IF firstEnd < firstSize THEN <<"invalid">>
       ELSE LET firstStart == firstEnd - firstSize
                G[i \in 0..nrem] ==     \* [ok, ranges (descending), prevStart]
                    IF i = 0 THEN [ok |-> TRUE, rs |-> <<<<firstStart, firstEnd + 1>>>>, prev |-> firstStart]
                    ELSE LET g == G[i - 1]
                             gap == f[3 + 2 * (i - 1) + 1]
                             size == f[3 + 2 * (i - 1) + 2]
                         IN IF ~g.ok \/ g.prev < 2 + gap THEN [ok |-> FALSE, rs |-> <<>>, prev |-> 0]
                            ELSE LET end == (g.prev - gap) - 2 IN
                                 IF end < size THEN [ok |-> FALSE, rs |-> <<>>, prev |-> 0]
                                 ELSE [ok |-> TRUE, rs |-> g.rs \o <<<<end - size, end + 1>>>>, prev |-> end - size]
                res == G[nrem]
            IN IF ~res.ok THEN <<"invalid">> ELSE [i \in 1..Len(res.rs) |-> res.rs[Len(res.rs) + 1 - i]]

RangeSet(rs) == UNION {rs[i][1]..(rs[i][2] - 1) : i \in 1..Len(rs)}

WellFormed(rs) == /\ \A i \in 1..Len(rs) : rs[i][1] < rs[i][2]
                  /\ \A i \in 1..(Len(rs) - 1) : rs[i][2] < rs[i + 1][1]      \* sorted, disjoint, not adjacent

Init == pend = <<>> /\ rcvd = {} /\ n = 0
Next == /\ n < MaxArrivals
        /\ \E q \in Universe : /\ pend' = AddPend(pend, q)
                               /\ rcvd' = rcvd \cup {q}
                               /\ n' = n + 1
Spec == Init /\ [][Next]_vars

ListOK == /\ WellFormed(pend)
          /\ Len(pend) <= ACKCAP
          /\ RangeSet(pend) \subseteq rcvd
          /\ (rcvd # {} => pend # <<>>)
CodecOK == pend # <<>> => DecodeAck(EncodeAck(pend)) = pend
ExportInv == (Export /\ pend # <<>>) => PrintT(<<"RANGES", ToJson(pend)>>)
View == <<pend, rcvd>>
Cap3 == 3
NoCh == <<>>
=============================================================================
