\* C12 quick: every sequence of up to 5 table / status / traffic calls over two client ids (manual table: the schedule adds
\* the connections itself), tiny reliable channel so that a second send disconnects for exhausted memory, undecodable packets.
SPECIFICATION Spec
CONSTANTS
  ChSC <- Ch_tiny
  ChCS <- Ch_tiny
  SeqBase = 0
  MidBase = 0
  Budget = 60000
  Ids = {1, 2}
  MaxSteps = 5
  Calls = {"table", "status", "traffic", "hostile"}
  Msgs <- Msgs_api
  HealDt = 300
  HealRounds = 0
  Bound <- NoBound
  PropsOn <- P_C12
  ExportAll = TRUE
  Export = TRUE
  Manual = TRUE
INVARIANT NoFlag
INVARIANT ExportInv
VIEW View
CHECK_DEADLOCK FALSE
