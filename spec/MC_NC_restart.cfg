\* netcode: a client program restarted behind the same address -- two client objects at address 1 holding different tokens for
\* ONE client id (1 s time-outs) next to a bystander; exchanges, departures (the farewell reaches the server or the client just
\* stops), server updates of 250 / 1000 ms in any interleaving of 8 steps: a request from an address that still has a session is
\* ignored until that session ended (by its disconnect or by the server's time-out), connects and disconnects alternate per id,
\* the listed ids are the open sessions, the bystander is never disturbed.
SPECIFICATION Spec
CONSTANTS
  Tokens <- Toks_restart
  Clients <- Clis_restart
  MaxClients0 = 2
  ServerAddrs = 1
  TokenSingleUse = TRUE
  TokenTable = 2048
  MaxSteps = 8
  Addrs = {1, 2}
  Dts = {250, 1000}
  CraftToks = {}
  MaxPresent = 2
  Calls = {"exchange", "time", "leave"}
  PumpPay = FALSE
  HealRounds = 0
  HealDt = 250
  Bound = 0
  PropsOn <- P_RESTART
  Export = TRUE
  ExportAll = FALSE
  ExportOneIn = 1
INVARIANT NoFlag
INVARIANT ExportInv
VIEW View
CHECK_DEADLOCK FALSE
