--------------------------------- MODULE Renet ---------------------------------
(***************************************************************************)
(* Implementation-shaped specification of one renet message-layer          *)
(* connection (renet/src/remote_connection.rs, channel/reliable.rs,        *)
(* channel/unreliable.rs, channel/slice_constructor.rs, packet.rs).        *)
(*                                                                         *)
(* Two endpoints "S" (RenetServer side connection, new_from_server) and    *)
(* "C" (RenetClient).  One operator per public call:                       *)
(*   DoSend      send_message                                              *)
(*   DoRecv      receive_message                                           *)
(*   DoUpdate    update(duration)                                          *)
(*   DoFlush     get_packets_to_send                                       *)
(*   DoDeliver   process_packet (of a packet the peer really emitted)      *)
(*   DoHostile   process_packet (of an abstract hostile packet)            *)
(*   DoApi       set_connected / set_connecting / disconnect / ...         *)
(* Each operator maps a world  w  to  [w |-> w', ev |-> e]  where  e  is   *)
(* the event record the Rust harness logs for the same call on the real    *)
(* code (same field names, same abstract packet description), so that      *)
(*   - the observer RenetObs judges model behaviours and real traces with  *)
(*     the same formulas, and                                              *)
(*   - conformance is a field-by-field comparison of predicted and         *)
(*     recorded events.                                                    *)
(*                                                                         *)
(* Abstractions: message payload = [cid, len] (content identity + length); *)
(* a slice carries the identity of the message it was cut from; RTT and    *)
(* bandwidth statistics are not modelled.                                  *)
(***************************************************************************)
EXTENDS Integers, Sequences, FiniteSets, TLC, RenetObs

CONSTANTS ChSC,      \* channels the server sends on (sequence of [id, kind, max, resend]), in priority order
          ChCS,      \* channels the client sends on
          Budget,    \* available_bytes_per_tick
          SeqBase,   \* first packet sequence number of both endpoints (events carry numbers relative to it)
          MidBase    \* first message id of every channel (events carry ids relative to it)

SER_BUF == 1400     \* serialization buffer of get_packets_to_send
ACKCAP  == 64

SendCh(side) == IF side = "S" THEN ChSC ELSE ChCS
RecvCh(side) == IF side = "S" THEN ChCS ELSE ChSC

VarLen(v) == IF v <= 63 THEN 1 ELSE IF v <= 16383 THEN 2 ELSE IF v <= 1073741823 THEN 4 ELSE 8

(***************************************************************************)
(* Wire lengths (packet.rs:95-206)                                         *)
(***************************************************************************)
RECURSIVE SumMsgs(_, _, _)
SumMsgs(msgs, i, withId) ==
    IF i > Len(msgs) THEN 0
    ELSE (IF withId THEN VarLen(msgs[i].mid + MidBase) ELSE 0) + VarLen(msgs[i].len) + msgs[i].len + SumMsgs(msgs, i + 1, withId)

RECURSIVE SumRanges(_, _)
\* ranges are <<lo, hi>> (hi exclusive), ascending; encoding walks them in reverse
SumRanges(rs, i) ==
    IF i < 1 THEN 0
    ELSE LET gap == rs[i + 1][1] - rs[i][2] - 1
             size == (rs[i][2] - 1) - rs[i][1]
         IN VarLen(gap) + VarLen(size) + SumRanges(rs, i - 1)

PacketLen(p) ==
    CASE p.kind = "SR" -> 1 + VarLen(p.seq + SeqBase) + 1 + 2 + SumMsgs(p.msgs, 1, TRUE)
      [] p.kind = "SU" -> 1 + VarLen(p.seq + SeqBase) + 1 + 2 + SumMsgs(p.msgs, 1, FALSE)
      [] p.kind \in {"RS", "US"} ->
            1 + VarLen(p.seq + SeqBase) + 1 + VarLen(p.sl.mid + MidBase) + VarLen(p.sl.idx) + VarLen(p.sl.n) + VarLen(p.sl.len) + p.sl.len
      [] p.kind = "ACK" ->
            LET n == Len(p.ranges)
                last == p.ranges[n]
            IN 1 + VarLen(p.seq + SeqBase) + VarLen(last[2] - 1 + SeqBase) + VarLen((last[2] - 1) - last[1]) + VarLen(n - 1)
               + SumRanges(p.ranges, n - 1)

NoSl == [mid |-> 0, idx |-> 0, n |-> 0, len |-> 0, mcid |-> -1]

MkSmall(kind, seq, ch, msgs) ==
    LET p0 == [seq |-> seq, kind |-> kind, ch |-> ch, bytes |-> 0, msgs |-> msgs, sl |-> NoSl, ranges |-> <<>>,
               pay |-> SumSeq([i \in 1..Len(msgs) |-> msgs[i].len], 1)]
    IN [p0 EXCEPT !.bytes = PacketLen(p0)]

MkSlice(kind, seq, ch, mid, idx, n, plen, mcid) ==
    LET p0 == [seq |-> seq, kind |-> kind, ch |-> ch, bytes |-> 0, msgs |-> <<>>,
               sl |-> [mid |-> mid, idx |-> idx, n |-> n, len |-> plen, mcid |-> mcid], ranges |-> <<>>, pay |-> plen]
    IN [p0 EXCEPT !.bytes = PacketLen(p0)]

MkAck(seq, ranges) ==
    LET p0 == [seq |-> seq, kind |-> "ACK", ch |-> -1, bytes |-> 0, msgs |-> <<>>, sl |-> NoSl, ranges |-> ranges, pay |-> 0]
    IN [p0 EXCEPT !.bytes = PacketLen(p0)]

(***************************************************************************)
(* Endpoint state                                                          *)
(***************************************************************************)
NewSend(c) == IF c.kind = "U" THEN [q |-> <<>>, sid |-> 0, mem |-> 0]
              ELSE [un |-> <<>>, next |-> 0, mem |-> 0]
NewRecv(c) == IF c.kind = "U" THEN [msgs |-> <<>>, sl |-> <<>>, last |-> <<>>, mem |-> 0]
              ELSE [msgs |-> <<>>, sl |-> <<>>, oldest |-> 0, rcvd |-> {}, mem |-> 0]

NewEndpoint(side) ==
    [status |-> "Connected", reason |-> "None", rch |-> -1, now |-> 0, pseq |-> 0, sent |-> <<>>, pend |-> <<>>,
     snd |-> [i \in 1..Len(SendCh(side)) |-> NewSend(SendCh(side)[i])],
     rcv |-> [i \in 1..Len(RecvCh(side)) |-> NewRecv(RecvCh(side)[i])]]

\* w.net[side] = flushes emitted by side; w.dl = packets delivered at least once; w.nd = how often
NewWorld == [ep |-> [s \in {"S", "C"} |-> NewEndpoint(s)],
             net |-> [s \in {"S", "C"} |-> <<>>],
             dl |-> <<>>,
             cut |-> [s \in {"S", "C"} |-> 0]]   \* flushes up to cut[side] are lost for good (heal with loss)

IsDisc(e) == e.status = "Disc"
Disconnect(e, reason, ch) == IF IsDisc(e) THEN e ELSE [e EXCEPT !.status = "Disc", !.reason = reason, !.rch = ch]

RECURSIVE SortedSeq(_)
SortedSeq(S) == IF S = {} THEN <<>>
                ELSE LET m == CHOOSE x \in S : \A y \in S : x <= y IN <<m>> \o SortedSeq(S \ {m})

SendIdx(side, ch) == IF \E i \in 1..Len(SendCh(side)) : SendCh(side)[i].id = ch
                     THEN CHOOSE i \in 1..Len(SendCh(side)) : SendCh(side)[i].id = ch ELSE 0
RecvIdx(side, ch) == IF \E i \in 1..Len(RecvCh(side)) : RecvCh(side)[i].id = ch
                     THEN CHOOSE i \in 1..Len(RecvCh(side)) : RecvCh(side)[i].id = ch ELSE 0

\* the projection the harness logs after every call
Proj(e, side) ==
    [status |-> e.status, reason |-> e.reason, rch |-> e.rch,
     avail |-> [i \in 1..Len(SendCh(side)) |-> SendCh(side)[i].max - e.snd[i].mem],
     rmem  |-> [i \in 1..Len(RecvCh(side)) |-> e.rcv[i].mem],
     unacked |-> [i \in 1..Len(SendCh(side)) |->
                    IF SendCh(side)[i].kind = "U" THEN <<>> ELSE SortedSeq(DOMAIN e.snd[i].un)]]

BaseEv(name, side, e0, e1) ==
    [ev |-> name, conn |-> 1, side |-> side, st0 |-> Proj(e0, side), st1 |-> Proj(e1, side), panic |-> FALSE]

(***************************************************************************)
(* send_message  (remote_connection.rs:319, reliable.rs:204, unreliable.rs:119) *)
(***************************************************************************)
DoSend(w, side, ch, cid, len) ==
    LET e  == w.ep[side]
        i  == SendIdx(side, ch)
        c  == SendCh(side)[i]
        e1 == IF IsDisc(e) THEN e
              ELSE IF c.kind = "U" THEN
                   IF e.snd[i].mem + len > c.max THEN e      \* dropped with a warning
                   ELSE [e EXCEPT !.snd[i].mem = @ + len, !.snd[i].q = Append(@, [cid |-> cid, len |-> len])]
              ELSE IF e.snd[i].mem + len > c.max THEN Disconnect(e, "SendMem", ch)
                   ELSE LET id == e.snd[i].next
                            m  == IF len > SLICE
                                  THEN [small |-> FALSE, cid |-> cid, len |-> len, n |-> NSlices(len), nack |-> 0, next |-> 0,
                                        acked |-> {}, last |-> [x \in 0..(NSlices(len) - 1) |-> -1]]
                                  ELSE [small |-> TRUE, cid |-> cid, len |-> len, n |-> 1, nack |-> 0, next |-> 0,
                                        acked |-> {}, last |-> [x \in {0} |-> -1]]
                        IN [e EXCEPT !.snd[i].mem = @ + len, !.snd[i].un = Put(@, id, m), !.snd[i].next = @ + 1]
        ev == BaseEv("send", side, e, e1) @@ [dir |-> SendDir(side), ch |-> ch, cid |-> cid, len |-> len]
    IN [w |-> [w EXCEPT !.ep[side] = e1], ev |-> ev]

(***************************************************************************)
(* receive_message  (remote_connection.rs:337, reliable.rs:350, unreliable.rs:217) *)
(***************************************************************************)
\* unordered: advance the cursor over everything already received
RECURSIVE AdvanceCursor(_, _)
AdvanceCursor(oldest, rcvd) ==
    IF oldest \in rcvd THEN AdvanceCursor(oldest + 1, rcvd \ {oldest}) ELSE [oldest |-> oldest, rcvd |-> rcvd]

DoRecv(w, side, ch) ==
    LET e == w.ep[side]
        i == RecvIdx(side, ch)
        c == RecvCh(side)[i]
        r == e.rcv[i]
        none == [some |-> FALSE, cid |-> -1, len |-> 0]
        res == IF IsDisc(e) THEN [r |-> r, out |-> none]
               ELSE IF c.kind = "U" THEN
                    IF r.msgs = <<>> THEN [r |-> r, out |-> none]
                    ELSE [r |-> [r EXCEPT !.msgs = Tail(@), !.mem = @ - Head(r.msgs).len],
                          out |-> [some |-> TRUE, cid |-> Head(r.msgs).cid, len |-> Head(r.msgs).len]]
               ELSE IF c.kind = "RO" THEN
                    IF r.oldest \notin DOMAIN r.msgs THEN [r |-> r, out |-> none]
                    ELSE LET m == r.msgs[r.oldest] IN
                         [r |-> [r EXCEPT !.msgs = Drop(@, {r.oldest}), !.oldest = @ + 1, !.mem = @ - m.len],
                          out |-> [some |-> TRUE, cid |-> m.cid, len |-> m.len]]
               ELSE \* RU: lowest id first
                    IF DOMAIN r.msgs = {} THEN [r |-> r, out |-> none]
                    ELSE LET id == CHOOSE x \in DOMAIN r.msgs : \A y \in DOMAIN r.msgs : x <= y
                             m  == r.msgs[id]
                             adv == IF r.oldest = id THEN AdvanceCursor(r.oldest, r.rcvd) ELSE [oldest |-> r.oldest, rcvd |-> r.rcvd]
                         IN [r |-> [r EXCEPT !.msgs = Drop(@, {id}), !.oldest = adv.oldest, !.rcvd = adv.rcvd, !.mem = @ - m.len],
                             out |-> [some |-> TRUE, cid |-> m.cid, len |-> m.len]]
        e1 == [e EXCEPT !.rcv[i] = res.r]
        ev == BaseEv("recv", side, e, e1) @@ [dir |-> RecvDir(side), ch |-> ch, some |-> res.out.some, cid |-> res.out.cid, len |-> res.out.len]
    IN [w |-> [w EXCEPT !.ep[side] = e1], ev |-> ev]

(***************************************************************************)
(* update  (remote_connection.rs:354, unreliable.rs:197)                   *)
(***************************************************************************)
\* every incomplete message without a slice for 3 s is discarded (unreliable.rs:197)
StaleIds(last, ids, now) == {ids[j] : j \in {x \in 1..Len(ids) : now - last[ids[x]] >= HORIZON}}

SweepUnreliable(r, now) ==
    LET lost == StaleIds(r.last, SortedSeq(DOMAIN r.last), now)
        freed == SumSeq([j \in 1..Cardinality(lost) |-> r.sl[SortedSeq(lost)[j]].n * SLICE], 1)
    IN [r EXCEPT !.last = Drop(@, lost), !.sl = Drop(@, lost), !.mem = @ - freed]

RECURSIVE LostSeqs(_, _, _)
LostSeqs(sent, seqs, now) ==
    IF seqs = <<>> THEN {}
    ELSE IF now - sent[Head(seqs)].at >= HORIZON THEN {Head(seqs)} \cup LostSeqs(sent, Tail(seqs), now) ELSE {}

DoUpdate(w, side, dt) ==
    LET e == w.ep[side]
        now == e.now + dt
        e1 == [e EXCEPT !.now = now,
                        !.rcv = [i \in DOMAIN e.rcv |-> IF RecvCh(side)[i].kind = "U" THEN SweepUnreliable(e.rcv[i], now) ELSE e.rcv[i]],
                        !.sent = Drop(@, LostSeqs(e.sent, SortedSeq(DOMAIN e.sent), now))]
        ev == BaseEv("update", side, e, e1) @@ [dt |-> dt, t |-> now]
    IN [w |-> [w EXCEPT !.ep[side] = e1], ev |-> ev]

(***************************************************************************)
(* get_packets_to_send  (remote_connection.rs:496, reliable.rs:94, unreliable.rs:52) *)
(***************************************************************************)
\* accumulator: [un, avail, pseq, pk, small, sbytes]
RECURSIVE RelSlices(_, _, _, _, _, _, _)
\* inner loop over the slices of one sliced message; i counts 0..n-1
RelSlices(a, mid, m, start, i, now, c) ==
    IF i >= m.n THEN [a |-> a, m |-> m]
    ELSE IF a.avail < SLICE THEN [a |-> a, m |-> m]     \* continue 'messages
    ELSE LET j == (start + i) % m.n IN
         IF j \in m.acked THEN RelSlices(a, mid, m, start, i + 1, now, c)
         ELSE IF m.last[j] # -1 /\ now - m.last[j] < c.resend THEN RelSlices(a, mid, m, start, i + 1, now, c)
         ELSE LET plen == IF j = m.n - 1 THEN m.len - j * SLICE ELSE SLICE
                  p == MkSlice("RS", a.pseq, c.id, mid, j, m.n, plen, m.cid)
                  a1 == [a EXCEPT !.avail = @ - plen, !.pk = Append(@, p), !.pseq = @ + 1]
                  m1 == [m EXCEPT !.last[j] = now, !.next = j + 1]
              IN RelSlices(a1, mid, m1, start, i + 1, now, c)

RECURSIVE RelMsgs(_, _, _, _)
RelMsgs(a, ids, now, c) ==
    IF ids = <<>> THEN a
    ELSE LET mid == Head(ids)
             m == a.un[mid]
         IN IF m.small THEN
                IF a.avail < m.len THEN RelMsgs(a, Tail(ids), now, c)
                ELSE IF m.last[0] # -1 /\ now - m.last[0] < c.resend THEN RelMsgs(a, Tail(ids), now, c)
                ELSE LET ser == m.len + VarLen(m.len) + VarLen(mid + MidBase)
                         fl == a.sbytes + ser > SLICE
                         a1 == IF fl THEN [a EXCEPT !.pk = Append(@, MkSmall("SR", a.pseq, c.id, a.small)), !.small = <<>>,
                                                    !.sbytes = 0, !.pseq = @ + 1]
                               ELSE a
                         a2 == [a1 EXCEPT !.avail = @ - m.len, !.sbytes = @ + ser,
                                          !.small = Append(@, [mid |-> mid, cid |-> m.cid, len |-> m.len]),
                                          !.un[mid].last[0] = now]
                     IN RelMsgs(a2, Tail(ids), now, c)
            ELSE LET r == RelSlices(a, mid, m, m.next, 0, now, c)
                 IN RelMsgs([r.a EXCEPT !.un[mid] = r.m], Tail(ids), now, c)

FlushReliable(s, c, avail, pseq, now) ==
    IF DOMAIN s.un = {} THEN [s |-> s, avail |-> avail, pseq |-> pseq, pk |-> <<>>]
    ELSE LET a0 == [un |-> s.un, avail |-> avail, pseq |-> pseq, pk |-> <<>>, small |-> <<>>, sbytes |-> 0]
             a1 == RelMsgs(a0, SortedSeq(DOMAIN s.un), now, c)
             a2 == IF a1.small # <<>> THEN [a1 EXCEPT !.pk = Append(@, MkSmall("SR", a1.pseq, c.id, a1.small)), !.pseq = @ + 1] ELSE a1
         IN [s |-> [s EXCEPT !.un = a2.un], avail |-> a2.avail, pseq |-> a2.pseq, pk |-> a2.pk]

UnrelSlices(pk, pseq, c, sid, m) ==   \* emits the slices of one message in index order
    LET n == NSlices(m.len)
        F[i \in 0..n] == IF i = 0 THEN <<>>
                         ELSE Append(F[i - 1], MkSlice("US", pseq + i - 1, c.id, sid, i - 1, n,
                                                        IF i - 1 = n - 1 THEN m.len - (i - 1) * SLICE ELSE SLICE, m.cid))
    IN pk \o F[n]

RECURSIVE UnrelMsgs(_, _, _)
UnrelMsgs(a, q, c) ==
    IF q = <<>> THEN a
    ELSE LET m == Head(q)
             a0 == [a EXCEPT !.mem = @ - m.len]
         IN IF a0.avail < m.len THEN UnrelMsgs(a0, Tail(q), c)
            ELSE LET a1 == [a0 EXCEPT !.avail = @ - m.len] IN
                 IF m.len > SLICE THEN
                    UnrelMsgs([a1 EXCEPT !.pk = UnrelSlices(@, a1.pseq, c, a1.sid, m), !.pseq = @ + NSlices(m.len), !.sid = @ + 1], Tail(q), c)
                 ELSE LET ser == m.len + VarLen(m.len)
                          fl == a1.sbytes + ser > SLICE
                          a2 == IF fl THEN [a1 EXCEPT !.pk = Append(@, MkSmall("SU", a1.pseq, c.id, a1.small)), !.small = <<>>,
                                                      !.sbytes = 0, !.pseq = @ + 1]
                                ELSE a1
                      IN UnrelMsgs([a2 EXCEPT !.sbytes = @ + ser, !.small = Append(@, [mid |-> -1, cid |-> m.cid, len |-> m.len])], Tail(q), c)

FlushUnreliable(s, c, avail, pseq) ==
    LET a0 == [mem |-> s.mem, sid |-> s.sid, avail |-> avail, pseq |-> pseq, pk |-> <<>>, small |-> <<>>, sbytes |-> 0]
        a1 == UnrelMsgs(a0, s.q, c)
        a2 == IF a1.small # <<>> THEN [a1 EXCEPT !.pk = Append(@, MkSmall("SU", a1.pseq, c.id, a1.small)), !.pseq = @ + 1] ELSE a1
    IN [s |-> [s EXCEPT !.q = <<>>, !.mem = a2.mem, !.sid = a2.sid], avail |-> a2.avail, pseq |-> a2.pseq, pk |-> a2.pk]

RECURSIVE FlushChans(_, _, _, _, _, _)
FlushChans(snd, side, i, avail, pseq, now) ==
    IF i > Len(SendCh(side)) THEN [snd |-> snd, pseq |-> pseq, pk |-> <<>>]
    ELSE LET c == SendCh(side)[i]
             r == IF c.kind = "U" THEN FlushUnreliable(snd[i], c, avail, pseq) ELSE FlushReliable(snd[i], c, avail, pseq, now)
             rest == FlushChans([snd EXCEPT ![i] = r.s], side, i + 1, r.avail, r.pseq, now)
         IN [snd |-> rest.snd, pseq |-> rest.pseq, pk |-> r.pk \o rest.pk]

SentInfo(p, now) ==
    CASE p.kind = "SR" -> [at |-> now, kind |-> "SR", ch |-> p.ch, mids |-> [j \in 1..Len(p.msgs) |-> p.msgs[j].mid], mid |-> 0, idx |-> 0, largest |-> 0]
      [] p.kind = "RS" -> [at |-> now, kind |-> "RS", ch |-> p.ch, mids |-> <<>>, mid |-> p.sl.mid, idx |-> p.sl.idx, largest |-> 0]
      [] p.kind = "ACK" -> [at |-> now, kind |-> "ACK", ch |-> -1, mids |-> <<>>, mid |-> 0, idx |-> 0, largest |-> p.ranges[Len(p.ranges)][2] - 1]
      [] OTHER -> [at |-> now, kind |-> "NONE", ch |-> p.ch, mids |-> <<>>, mid |-> 0, idx |-> 0, largest |-> 0]

DoFlush(w, side) ==
    LET e == w.ep[side]
        r == FlushChans(e.snd, side, 1, Budget, e.pseq, e.now)
        ack == IF e.pend # <<>> THEN <<MkAck(r.pseq, e.pend)>> ELSE <<>>
        pk == r.pk \o ack
        pseq1 == r.pseq + Len(ack)
        sent1 == [q \in (DOMAIN e.sent) \cup {pk[j].seq : j \in 1..Len(pk)} |->
                    IF \E j \in 1..Len(pk) : pk[j].seq = q
                    THEN SentInfo(pk[CHOOSE j \in 1..Len(pk) : pk[j].seq = q], e.now) ELSE e.sent[q]]
        tooBig == \E j \in 1..Len(pk) : pk[j].bytes > SER_BUF
        e1 == IF IsDisc(e) THEN e
              ELSE LET e2 == [e EXCEPT !.snd = r.snd, !.pseq = pseq1, !.sent = sent1] IN
                   IF tooBig THEN Disconnect(e2, "PacketSerialization", -1) ELSE e2
        out == IF IsDisc(e) \/ tooBig THEN <<>> ELSE pk
        ev == BaseEv("flush", side, e, e1) @@ [dir |-> SendDir(side), t |-> e.now, fl |-> Len(w.net[side]) + 1, pk |-> out]
    IN [w |-> [w EXCEPT !.ep[side] = e1, !.net[side] = Append(@, out)], ev |-> ev]

(***************************************************************************)
(* process_packet  (remote_connection.rs:384)                              *)
(***************************************************************************)
\* add_pending_ack, transcribed (remote_connection.rs:615-661); ranges are <<lo, hi>>, hi exclusive
RECURSIVE AddPendFrom(_, _, _)
AddPendFrom(pend, seq, i) ==
    IF i > Len(pend) THEN
        LET p1 == Append(pend, <<seq, seq + 1>>) IN
        IF Len(p1) > ACKCAP THEN Tail(p1) ELSE p1
    ELSE LET r == pend[i] IN
         IF r[1] <= seq /\ seq < r[2] THEN pend
         ELSE IF r[1] = seq + 1 THEN [pend EXCEPT ![i] = <<seq, r[2]>>]
         ELSE IF r[2] = seq THEN
              IF i + 1 <= Len(pend) /\ pend[i + 1][1] = seq + 1
              THEN SubSeq(pend, 1, i - 1) \o <<<<r[1], pend[i + 1][2]>>>> \o SubSeq(pend, i + 2, Len(pend))
              ELSE [pend EXCEPT ![i] = <<r[1], seq + 1>>]
         ELSE IF r[1] > seq + 1 THEN
              \* insert before i (the code does not enforce the cap on this path: intended design enforces it)
              LET p1 == SubSeq(pend, 1, i - 1) \o <<<<seq, seq + 1>>>> \o SubSeq(pend, i, Len(pend)) IN
              IF Len(p1) > ACKCAP THEN Tail(p1) ELSE p1
         ELSE AddPendFrom(pend, seq, i + 1)

AddPend(pend, seq) == IF pend = <<>> THEN <<<<seq, seq + 1>>>> ELSE AddPendFrom(pend, seq, 1)

\* acked_largest (remote_connection.rs:663-687)
RECURSIVE AckedLargest(_, _)
AckedLargest(pend, largest) ==
    IF pend = <<>> THEN pend
    ELSE LET r == pend[1] IN
         IF largest < r[1] THEN pend
         ELSE IF r[2] <= largest THEN AckedLargest(Tail(pend), largest)
         ELSE IF largest + 1 >= r[2] THEN Tail(pend)
         ELSE <<<<largest + 1, r[2]>>>> \o Tail(pend)

\* reliable receive channel: process_message (reliable.rs:281)
ProcMsg(r, c, m, mid) ==
    IF mid < r.oldest THEN [r |-> r, err |-> "None"]
    ELSE IF c.kind = "RO" THEN
        IF mid \in DOMAIN r.msgs THEN [r |-> r, err |-> "None"]
        ELSE IF r.mem + m.len > c.max THEN [r |-> r, err |-> "RecvMem"]
        ELSE [r |-> [r EXCEPT !.mem = @ + m.len, !.msgs = Put(@, mid, m)], err |-> "None"]
    ELSE
        IF mid \in r.rcvd THEN [r |-> r, err |-> "None"]
        ELSE IF r.mem + m.len > c.max THEN [r |-> r, err |-> "RecvMem"]
        ELSE [r |-> [r EXCEPT !.mem = @ + m.len, !.msgs = Put(@, mid, m), !.rcvd = @ \cup {mid}], err |-> "None"]

\* SliceConstructor::process_slice (slice_constructor.rs:25); an index outside the announced count is rejected
SCProcess(sc, idx, plen, mcid) ==
    IF idx < 0 \/ idx >= sc.n THEN [sc |-> sc, err |-> TRUE, done |-> FALSE, msg |-> [cid |-> -1, len |-> 0]]
    ELSE IF (idx = sc.n - 1 /\ plen > SLICE) \/ (idx # sc.n - 1 /\ plen # SLICE)
         THEN [sc |-> sc, err |-> TRUE, done |-> FALSE, msg |-> [cid |-> -1, len |-> 0]]
    ELSE LET sc1 == IF idx \in sc.got THEN sc ELSE [sc EXCEPT !.got = @ \cup {idx}, !.frag = Put(@, idx, [mcid |-> mcid, len |-> plen])]
         IN IF Cardinality(sc1.got) = sc1.n
            THEN LET len == (sc1.n - 1) * SLICE + sc1.frag[sc1.n - 1].len
                     same == \A x \in 0..(sc1.n - 1) : sc1.frag[x].mcid = sc1.frag[0].mcid
                 IN [sc |-> sc1, err |-> FALSE, done |-> TRUE, msg |-> [cid |-> IF same THEN sc1.frag[0].mcid ELSE -1, len |-> len]]
            ELSE [sc |-> sc1, err |-> FALSE, done |-> FALSE, msg |-> [cid |-> -1, len |-> 0]]

NewSC(n) == [n |-> n, got |-> {}, frag |-> <<>>]

\* reliable receive channel: process_slice (reliable.rs:321)
ProcSlice(r, c, sl) ==
    IF sl.mid \in DOMAIN r.msgs \/ sl.mid < r.oldest \/ (c.kind = "RU" /\ sl.mid \in r.rcvd) THEN [r |-> r, err |-> "None"]
    ELSE LET isnew == sl.mid \notin DOMAIN r.sl IN
         IF isnew /\ r.mem + sl.n * SLICE > c.max THEN [r |-> r, err |-> "RecvMem"]
         ELSE LET r1 == IF isnew THEN [r EXCEPT !.mem = @ + sl.n * SLICE, !.sl = Put(@, sl.mid, NewSC(sl.n))] ELSE r
                  res == SCProcess(r1.sl[sl.mid], sl.idx, sl.len, sl.mcid)
              IN IF res.err THEN [r |-> r1, err |-> "RecvSlice"]
                 ELSE IF ~res.done THEN [r |-> [r1 EXCEPT !.sl[sl.mid] = res.sc], err |-> "None"]
                 ELSE LET r2 == [r1 EXCEPT !.mem = @ - r1.sl[sl.mid].n * SLICE, !.sl[sl.mid] = res.sc]
                          pm == ProcMsg(r2, c, res.msg, sl.mid)
                      IN IF pm.err # "None" THEN [r |-> r2, err |-> pm.err]
                         ELSE [r |-> [pm.r EXCEPT !.sl = Drop(@, {sl.mid})], err |-> "None"]

\* unreliable receive channel (unreliable.rs:152-195)
UProcMsg(r, c, m) == IF r.mem + m.len > c.max THEN r ELSE [r EXCEPT !.mem = @ + m.len, !.msgs = Append(@, m)]

UProcSlice(r, c, sl, now) ==
    LET isnew == sl.mid \notin DOMAIN r.sl IN
    IF isnew /\ r.mem + sl.n * SLICE > c.max THEN [r |-> r, err |-> "None"]
    ELSE LET r1 == IF isnew THEN [r EXCEPT !.mem = @ + sl.n * SLICE, !.sl = Put(@, sl.mid, NewSC(sl.n))] ELSE r
             res == SCProcess(r1.sl[sl.mid], sl.idx, sl.len, sl.mcid)
         IN IF res.err THEN [r |-> r1, err |-> "RecvSlice"]
            ELSE IF res.done
                 THEN [r |-> [r1 EXCEPT !.sl = Drop(@, {sl.mid}), !.last = Drop(@, {sl.mid}),
                                        !.mem = @ - r1.sl[sl.mid].n * SLICE + res.msg.len, !.msgs = Append(@, res.msg)],
                       err |-> "None"]
                 ELSE [r |-> [r1 EXCEPT !.sl[sl.mid] = res.sc, !.last = Put(@, sl.mid, now)], err |-> "None"]

RECURSIVE ProcSmallR(_, _, _, _)
ProcSmallR(r, c, msgs, j) ==
    IF j > Len(msgs) THEN [r |-> r, err |-> "None"]
    ELSE LET pm == ProcMsg(r, c, [cid |-> msgs[j].cid, len |-> msgs[j].len], msgs[j].mid) IN
         IF pm.err # "None" THEN pm ELSE ProcSmallR(pm.r, c, msgs, j + 1)

RECURSIVE ProcSmallU(_, _, _, _)
ProcSmallU(r, c, msgs, j) ==
    IF j > Len(msgs) THEN r ELSE ProcSmallU(UProcMsg(r, c, [cid |-> msgs[j].cid, len |-> msgs[j].len]), c, msgs, j + 1)

\* acknowledgement of one sent packet (remote_connection.rs:455-487)
AckOne(e, side, q) ==
    LET info == e.sent[q]
        e0 == [e EXCEPT !.sent = Drop(@, {q})]
    IN CASE info.kind = "SR" ->
              LET i == SendIdx(side, info.ch)
                  gone == {info.mids[j] : j \in 1..Len(info.mids)} \cap DOMAIN e0.snd[i].un
                  freed == SumSeq([j \in 1..Cardinality(gone) |-> e0.snd[i].un[SortedSeq(gone)[j]].len], 1)
              IN [e0 EXCEPT !.snd[i].un = Drop(@, gone), !.snd[i].mem = @ - freed]
         [] info.kind = "RS" ->
              LET i == SendIdx(side, info.ch) IN
              IF info.mid \notin DOMAIN e0.snd[i].un THEN e0
              ELSE LET m == e0.snd[i].un[info.mid] IN
                   IF info.idx \in m.acked THEN e0
                   ELSE IF m.nack + 1 = m.n
                        THEN [e0 EXCEPT !.snd[i].un = Drop(@, {info.mid}), !.snd[i].mem = @ - m.len]
                        ELSE [e0 EXCEPT !.snd[i].un[info.mid].acked = @ \cup {info.idx}, !.snd[i].un[info.mid].nack = @ + 1]
         [] info.kind = "ACK" -> [e0 EXCEPT !.pend = AckedLargest(@, info.largest)]
         [] OTHER -> e0

RECURSIVE AckAll(_, _, _)
AckAll(e, side, seqs) == IF seqs = <<>> THEN e ELSE AckAll(AckOne(e, side, Head(seqs)), side, Tail(seqs))

\* new acks: for each range in order, the tracked sequences inside it, ascending
RECURSIVE NewAcks(_, _, _)
NewAcks(sent, ranges, j) ==
    IF j > Len(ranges) THEN <<>>
    ELSE SortedSeq({q \in DOMAIN sent : ranges[j][1] <= q /\ q < ranges[j][2]}) \o NewAcks(sent, ranges, j + 1)

RECURSIVE Dedup(_, _)
Dedup(s, seen) == IF s = <<>> THEN <<>> ELSE IF Head(s) \in seen THEN Dedup(Tail(s), seen) ELSE <<Head(s)>> \o Dedup(Tail(s), seen \cup {Head(s)})

Process(e, side, p) ==
    IF IsDisc(e) THEN e
    ELSE LET e0 == [e EXCEPT !.pend = AddPend(@, p.seq)] IN
         CASE p.kind = "SR" ->
                LET i == RecvIdx(side, p.ch) IN
                IF i = 0 \/ RecvCh(side)[i].kind = "U" THEN Disconnect(e0, "InvalidChannel", p.ch)
                ELSE LET pr == ProcSmallR(e0.rcv[i], RecvCh(side)[i], p.msgs, 1)
                         e1 == [e0 EXCEPT !.rcv[i] = pr.r]
                     IN IF pr.err # "None" THEN Disconnect(e1, pr.err, p.ch) ELSE e1
           [] p.kind = "SU" ->
                LET i == RecvIdx(side, p.ch) IN
                IF i = 0 \/ RecvCh(side)[i].kind # "U" THEN Disconnect(e0, "InvalidChannel", p.ch)
                ELSE [e0 EXCEPT !.rcv[i] = ProcSmallU(@, RecvCh(side)[i], p.msgs, 1)]
           [] p.kind = "RS" ->
                LET i == RecvIdx(side, p.ch) IN
                IF i = 0 \/ RecvCh(side)[i].kind = "U" THEN Disconnect(e0, "InvalidChannel", p.ch)
                ELSE LET pr == ProcSlice(e0.rcv[i], RecvCh(side)[i], p.sl)
                         e1 == [e0 EXCEPT !.rcv[i] = pr.r]
                     IN IF pr.err # "None" THEN Disconnect(e1, pr.err, p.ch) ELSE e1
           [] p.kind = "US" ->
                LET i == RecvIdx(side, p.ch) IN
                IF i = 0 \/ RecvCh(side)[i].kind # "U" THEN Disconnect(e0, "InvalidChannel", p.ch)
                ELSE LET pr == UProcSlice(e0.rcv[i], RecvCh(side)[i], p.sl, e0.now)
                         e1 == [e0 EXCEPT !.rcv[i] = pr.r]
                     IN IF pr.err # "None" THEN Disconnect(e1, pr.err, p.ch) ELSE e1
           [] p.kind = "ACK" -> AckAll(e0, side, Dedup(NewAcks(e0.sent, p.ranges, 1), {}))
           [] OTHER -> Disconnect(e, "PacketDeserialization", -1)

DoDeliver(w, to, fl, ix) ==
    LET from == Other(to)
        p == w.net[from][fl][ix]
        e == w.ep[to]
        e1 == Process(e, to, p)
        nth == IF <<from, fl, ix>> \in DOMAIN w.dl THEN w.dl[<<from, fl, ix>>] ELSE 0
        ev == BaseEv("deliver", to, e, e1) @@ [dir |-> RecvDir(to), label |-> "genuine", fl |-> fl, ix |-> ix, nth |-> nth, p |-> p]
    IN [w |-> [w EXCEPT !.ep[to] = e1, !.dl = Put(@, <<from, fl, ix>>, nth + 1)], ev |-> ev]

\* a hostile packet (abstract: any well-formed packet record, or kind "BAD" for bytes the decoder rejects)
DoHostile(w, to, p) ==
    LET e == w.ep[to]
        e1 == Process(e, to, p)
        ev == BaseEv("deliver", to, e, e1) @@ [dir |-> RecvDir(to), label |-> "hostile", fl |-> 0, ix |-> 0, nth |-> 0, p |-> p]
    IN [w |-> [w EXCEPT !.ep[to] = e1], ev |-> ev]

(***************************************************************************)
(* transport status calls (remote_connection.rs:258-292)                   *)
(***************************************************************************)
DoApi(w, side, call) ==
    LET e == w.ep[side]
        e1 == CASE call = "set_connected" -> IF IsDisc(e) THEN e ELSE [e EXCEPT !.status = "Connected"]
                [] call = "set_connecting" -> IF IsDisc(e) THEN e ELSE [e EXCEPT !.status = "Connecting"]
                [] call = "disconnect" -> Disconnect(e, IF side = "C" THEN "DisconnectedByClient" ELSE "DisconnectedByServer", -1)
                [] call = "disconnect_due_to_transport" -> Disconnect(e, "Transport", -1)
                [] OTHER -> e
        ev == BaseEv("api", side, e, e1) @@ [call |-> call]
    IN [w |-> [w EXCEPT !.ep[side] = e1], ev |-> ev]

(***************************************************************************)
(* composite: one good round (harness `round`): update both, flush both,   *)
(* deliver every packet never delivered so far in emission order, drain    *)
(***************************************************************************)
Then(r, f(_)) == LET r2 == f(r.w) IN [w |-> r2.w, evs |-> r.evs \o r2.evs]
One(r) == [w |-> r.w, evs |-> <<r.ev>>]

Undelivered(w, from) ==
    LET F[fl \in 0..Len(w.net[from])] ==
            IF fl <= w.cut[from] THEN <<>>
            ELSE F[fl - 1] \o SelectSeq([ix \in 1..Len(w.net[from][fl]) |-> <<fl, ix>>], LAMBDA x : <<from, x[1], x[2]>> \notin DOMAIN w.dl)
    IN F[Len(w.net[from])]

\* heal with loss: everything still in flight is lost (harness step heal with lose = true)
DoLose(w) == [w EXCEPT !.cut = [s \in {"S", "C"} |-> Len(w.net[s])]]

RECURSIVE DeliverList(_, _, _)
DeliverList(w, to, lst) ==
    IF lst = <<>> THEN [w |-> w, evs |-> <<>>]
    ELSE LET r == DoDeliver(w, to, Head(lst)[1], Head(lst)[2])
             rest == DeliverList(r.w, to, Tail(lst))
         IN [w |-> rest.w, evs |-> <<r.ev>> \o rest.evs]

RECURSIVE DrainCh(_, _, _)
DrainCh(w, side, ch) ==
    LET r == DoRecv(w, side, ch) IN
    IF ~r.ev.some THEN [w |-> r.w, evs |-> <<r.ev>>]
    ELSE LET rest == DrainCh(r.w, side, ch) IN [w |-> rest.w, evs |-> <<r.ev>> \o rest.evs]

RECURSIVE DrainFrom(_, _, _)
DrainFrom(w, side, i) ==
    IF i > Len(RecvCh(side)) THEN [w |-> w, evs |-> <<>>]
    ELSE LET r == DrainCh(w, side, RecvCh(side)[i].id)
             rest == DrainFrom(r.w, side, i + 1)
         IN [w |-> rest.w, evs |-> r.evs \o rest.evs]

DoRound(w, dt) ==
    LET r1 == One(DoUpdate(w, "S", dt))
        r2 == Then(r1, LAMBDA x : One(DoUpdate(x, "C", dt)))
        r3 == Then(r2, LAMBDA x : One(DoFlush(x, "S")))
        r4 == Then(r3, LAMBDA x : One(DoFlush(x, "C")))
        r5 == Then(r4, LAMBDA x : DeliverList(x, "C", Undelivered(x, "S")))
        r6 == Then(r5, LAMBDA x : DeliverList(x, "S", Undelivered(x, "C")))
        r7 == Then(r6, LAMBDA x : DrainFrom(x, "S", 1))
        r8 == Then(r7, LAMBDA x : DrainFrom(x, "C", 1))
    IN [w |-> r8.w, evs |-> r8.evs \o <<[ev |-> "round_end", conn |-> 1, panic |-> FALSE]>>]

(***************************************************************************)
(* RenetServer local clients (server.rs:272-309).  new_local_client hands  *)
(* out a fresh, connected client object and adds the connection;           *)
(* process_local_client moves the server's packets straight into the       *)
(* client and then the client's into the server -- no transport sees them, *)
(* so the log of emitted packets (net, dl) is left as it was.              *)
(***************************************************************************)
NewLocalClient(w, present) ==
    LET w1 == [w EXCEPT !.ep["C"] = NewEndpoint("C")] IN
    IF present THEN w1 ELSE [w1 EXCEPT !.ep["S"] = NewEndpoint("S")]

ProcessLocal(w) ==
    LET f1 == DoFlush(w, "S").w
        n1 == Len(f1.net["S"])
        w2 == DeliverList(f1, "C", [ix \in 1..Len(f1.net["S"][n1]) |-> <<n1, ix>>]).w
        f2 == DoFlush(w2, "C").w
        n2 == Len(f2.net["C"])
        w3 == DeliverList(f2, "S", [ix \in 1..Len(f2.net["C"][n2]) |-> <<n2, ix>>]).w
    IN [w3 EXCEPT !.net = w.net, !.dl = w.dl]

RECURSIVE ObsFold(_, _, _)
ObsFold(o, evs, i) == IF i > Len(evs) THEN o
                      ELSE LET o1 == ObsStep(o, evs[i]) IN
                           IF o1.flags # {} THEN o1 ELSE ObsFold(o1, evs, i + 1)
=============================================================================
