------------------------------ MODULE RenetSrv ------------------------------
(***************************************************************************)
(* RenetServer calls that act on one table entry AND on a client object:   *)
(* the local clients of server.rs:272-309.  Pure operators over one        *)
(* Renet.tla world `w` (client c), `present` (is c in the table) and the    *)
(* event queue; used by MC_Server (actions) and TraceServerStrict          *)
(* (prediction).  Result: [w, present, evq, ev] with ev shaped like the    *)
(* harness event (cst1 = projection of the client object after the call).  *)
(***************************************************************************)
EXTENDS Renet

GoneProj == [status |-> "Gone", reason |-> "None", rch |-> 0 - 1,
             avail |-> [i \in 1..Len(ChSC) |-> 0], rmem |-> [i \in 1..Len(ChCS) |-> 0], unacked |-> [i \in 1..Len(ChSC) |-> <<>>]]

SProj(w, present) == IF present THEN Proj(w.ep["S"], "S") ELSE GoneProj
LocalEv(c, call, w0, p0, w1, p1) ==
    [ev |-> "api", conn |-> c, side |-> "S", call |-> call, st0 |-> SProj(w0, p0), st1 |-> SProj(w1, p1),
     cst1 |-> Proj(w1.ep["C"], "C"), panic |-> FALSE]

\* new_local_client (server.rs:274-281): a fresh connected client object; add_connection is a no-op for a listed id
SrvNewLocal(w, present, evq, c) ==
    LET w1 == NewLocalClient(w, present) IN
    [w |-> w1, present |-> TRUE,
     evq |-> IF present THEN evq ELSE Append(evq, [type |-> "Connected", id |-> c, reason |-> "None"]),
     ev |-> LocalEv(c, "new_local_client", w, present, w1, TRUE)]

\* disconnect_local_client (server.rs:284-296): nothing at all for a client that is already disconnected; otherwise the
\* client disconnects and the connection leaves the table, reported with the reason it already had, if any
SrvDiscLocal(w, present, evq, c) ==
    LET noop == IsDisc(w.ep["C"])
        w1 == IF noop THEN w ELSE DoApi(w, "C", "disconnect").w
        gone == ~noop /\ present
        p1 == present /\ ~gone
    IN [w |-> w1, present |-> p1,
        evq |-> IF gone THEN Append(evq, [type |-> "Disconnected", id |-> c,
                                          reason |-> IF IsDisc(w.ep["S"]) THEN w.ep["S"].reason ELSE "DisconnectedByClient"]) ELSE evq,
        ev |-> LocalEv(c, "disconnect_local_client", w, present, w1, p1)]

\* process_local_client (server.rs:299-309): ClientNotFound (nothing happens) for an id that is not in the table
SrvProcessLocal(w, present, evq, c) ==
    LET w1 == IF present THEN ProcessLocal(w) ELSE w IN
    [w |-> w1, present |-> present, evq |-> evq, ev |-> LocalEv(c, "process_local_client", w, present, w1, present)]

SrvLocal(call, w, present, evq, c) ==
    CASE call = "new_local_client" -> SrvNewLocal(w, present, evq, c)
      [] call = "disconnect_local_client" -> SrvDiscLocal(w, present, evq, c)
      [] call = "process_local_client" -> SrvProcessLocal(w, present, evq, c)
LocalCalls == {"new_local_client", "disconnect_local_client", "process_local_client"}
=============================================================================
