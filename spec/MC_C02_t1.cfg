\* C02 thorough: 3-slice message with acks, retransmission, loss at heal
SPECIFICATION Spec
CONSTANTS
  ChSC <- Ch_RU
  ChCS <- Ch_RU
  SeqBase = 0
  MidBase = 0
  Budget = 60000
  Workload <- WL_RO_3slices
  MaxFlushS = 1
  MaxFlushC = 2
  MaxTicks = 1
  Dts = {300}
  MaxDeliver = 1
  HealDt = 300
  HealRounds = 3
  Bound = 3
  HealLose = {TRUE, FALSE}
  Reorder = TRUE
  RecvAnywhere = TRUE
  PropsOn <- P_C02
  MaxHostile = 0
  HostileSet = "none"
  ExportAll = TRUE
  Export = TRUE
INVARIANT NoFlag
INVARIANT ExportInv
VIEW View
CHECK_DEADLOCK FALSE
