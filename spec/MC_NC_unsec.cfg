\* netcode, ServerAuthentication::Unsecure (all-zero connect key, host list ignored): two holders of self-made tokens (one listing
\* a foreign host) and one holder of a token sealed with the real private key, 2 slots; exchanges, departures, server
\* disconnects and time in any order (9 steps, 11 125 states; the thorough tier adds exchanges presented from foreign addresses: MC_NC_unsec_t, 8 steps, 1.0 M states): the zero-key tokens connect, the other never does, the table clauses hold.
SPECIFICATION Spec
CONSTANTS
  Tokens <- Toks_unsec
  Clients <- Clis_unsec
  Secure0 <- UnsecureMode
  MaxClients0 = 2
  ServerAddrs = 1
  TokenSingleUse = TRUE
  TokenTable = 2048
  MaxSteps = 9
  Addrs = {1, 2, 3}
  Dts = {250}
  CraftToks = {}
  MaxPresent = 2
  Calls = {"exchange", "disconnect", "leave"}
  PumpPay = FALSE
  HealRounds = 0
  HealDt = 250
  Bound = 0
  PropsOn <- P_HS
  Export = TRUE
  ExportAll = FALSE
  ExportOneIn = 1
INVARIANT NoFlag
INVARIANT ExportInv
VIEW View
CHECK_DEADLOCK FALSE
