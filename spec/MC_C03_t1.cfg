\* C03 thorough: two unreliable sliced messages interleaved, duplicates
SPECIFICATION Spec
CONSTANTS
  ChSC <- Ch_U
  ChCS <- Ch_U
  SeqBase = 0
  MidBase = 0
  Budget = 60000
  Workload <- WL_U_2sliced
  MaxFlushS = 0
  MaxFlushC = 1
  MaxTicks = 1
  Dts = {300}
  MaxDeliver = 2
  HealDt = 300
  HealRounds = 3
  Bound = 3
  HealLose = {TRUE, FALSE}
  Reorder = TRUE
  RecvAnywhere = TRUE
  PropsOn <- P_C03
  MaxHostile = 0
  HostileSet = "none"
  ExportAll = TRUE
  Export = TRUE
INVARIANT NoFlag
INVARIANT ExportInv
VIEW View
CHECK_DEADLOCK FALSE
