--------------------------- MODULE TraceServerStrict ---------------------------
(***************************************************************************)
(* Strict pass for traces of the multi-connection message-layer world      *)
(* (RenetServer + one RenetClient per id): every recorded event must be    *)
(* the event that Renet.tla (per connection) and the table / event queue   *)
(* semantics of server.rs produce from the model state reached so far.     *)
(* Used for the behaviours exported from MC_Server (C11, C12).  Calls the  *)
(* model does not cover would end the comparison of that run without       *)
(* counting as drift (none at present: local clients are modelled too).    *)
(***************************************************************************)
EXTENDS RenetSrv, Json, IOUtils

Rec == ndJsonDeserialize(IOEnv.TRACE)

VARIABLES l, W, has, evq, skip, cnt
vars == <<l, W, has, evq, skip, cnt>>

Init == /\ l = 1 /\ W = <<>> /\ has = <<>> /\ evq = <<>> /\ skip = FALSE
        /\ cnt = [runs |-> 0, matched |-> 0, drift |-> 0, accepted |-> 0, unmodelled |-> 0]

Diff(pred, rec, ignore) == {f \in (DOMAIN pred) \ ignore : f \in DOMAIN rec /\ pred[f] # rec[f]}

\* what the model predicts for an event on connection c: [W, has, evq, ev]
Same(ev) == [W |-> W, has |-> has, evq |-> evq, ev |-> ev]
OnConn(c, r) == [W |-> [W EXCEPT ![c] = r.w], has |-> has, evq |-> evq, ev |-> [r.ev EXCEPT !.conn = c]]
Gone(e) == [ev |-> e.ev, conn |-> e.conn, side |-> "S", st0 |-> GoneProj, st1 |-> GoneProj, panic |-> FALSE]

RECURSIVE BcastAll(_, _, _)
BcastAll(Wc, ids, e) ==
    IF ids = {} THEN Wc
    ELSE LET c == CHOOSE x \in ids : TRUE IN
         BcastAll([Wc EXCEPT ![c] = DoSend(Wc[c], "S", e.ch, e.cid, e.len).w], ids \ {c}, e)

RECURSIVE SortedC(_)
SortedC(S) == IF S = {} THEN <<>> ELSE LET m == CHOOSE x \in S : \A y \in S : x <= y IN <<m>> \o SortedC(S \ {m})

Predict(e) ==
    LET c == e.conn
        absent == e.side = "S" /\ ~has[c]
    IN
    CASE e.ev = "send" -> IF absent THEN Same(Gone(e) @@ [dir |-> "sc", ch |-> e.ch, cid |-> e.cid, len |-> e.len])
                          ELSE OnConn(c, DoSend(W[c], e.side, e.ch, e.cid, e.len))
      [] e.ev = "recv" -> IF absent THEN Same(Gone(e) @@ [dir |-> "cs", ch |-> e.ch, some |-> FALSE, cid |-> 0 - 1, len |-> 0])
                          ELSE OnConn(c, DoRecv(W[c], e.side, e.ch))
      [] e.ev = "flush" -> IF absent
                           THEN [W |-> [W EXCEPT ![c].net["S"] = Append(@, <<>>)], has |-> has, evq |-> evq,
                                 ev |-> Gone(e) @@ [dir |-> "sc", fl |-> Len(W[c].net["S"]) + 1, pk |-> <<>>]]
                           ELSE OnConn(c, DoFlush(W[c], e.side))
      [] e.ev = "deliver" /\ e.label = "genuine" ->
            IF absent THEN [W |-> [W EXCEPT ![c].dl = Put(@, <<"C", e.fl, e.ix>>, Get(@, <<"C", e.fl, e.ix>>, 0) + 1)], has |-> has, evq |-> evq,
                            ev |-> Gone(e) @@ [dir |-> "cs", label |-> "genuine", fl |-> e.fl, ix |-> e.ix]]
            ELSE OnConn(c, DoDeliver(W[c], e.side, e.fl, e.ix))
      [] e.ev = "deliver" /\ e.label # "genuine" ->
            IF absent THEN Same(Gone(e)) ELSE OnConn(c, DoHostile(W[c], e.side, e.p))
      [] e.ev = "update" /\ e.conn # 0 -> IF absent THEN Same(Gone(e)) ELSE OnConn(c, DoUpdate(W[c], e.side, e.dt))
      [] e.ev = "update" /\ e.conn = 0 ->
            \* RenetServer::update advances every connection in the table
            [W |-> [x \in DOMAIN W |-> IF has[x] THEN DoUpdate(W[x], "S", e.dt).w ELSE W[x]], has |-> has, evq |-> evq, ev |-> [ev |-> "update"]]
      [] e.ev = "api" /\ e.side = "C" -> OnConn(c, DoApi(W[c], "C", e.call))
      [] e.ev = "api" /\ e.side = "S" /\ e.call = "add_connection" ->
            LET w1 == IF has[c] THEN W[c] ELSE [W[c] EXCEPT !.ep["S"] = NewEndpoint("S")]
            IN [W |-> [W EXCEPT ![c] = w1], has |-> [has EXCEPT ![c] = TRUE],
                evq |-> IF has[c] THEN evq ELSE Append(evq, [type |-> "Connected", id |-> c, reason |-> "None"]),
                ev |-> [ev |-> "api", conn |-> c, side |-> "S", call |-> e.call, st0 |-> IF has[c] THEN Proj(W[c].ep["S"], "S") ELSE GoneProj,
                        st1 |-> Proj(w1.ep["S"], "S")]]
      [] e.ev = "api" /\ e.side = "S" /\ e.call = "remove_connection" ->
            [W |-> W, has |-> [has EXCEPT ![c] = FALSE],
             evq |-> IF has[c] THEN Append(evq, [type |-> "Disconnected", id |-> c,
                                                reason |-> IF W[c].ep["S"].status = "Disc" THEN W[c].ep["S"].reason ELSE "Transport"]) ELSE evq,
             ev |-> [ev |-> "api", conn |-> c, side |-> "S", call |-> e.call, st0 |-> IF has[c] THEN Proj(W[c].ep["S"], "S") ELSE GoneProj, st1 |-> GoneProj]]
      [] e.ev = "api" /\ e.side = "S" /\ e.call \in LocalCalls ->
            LET r == SrvLocal(e.call, W[c], has[c], evq, c)
            IN [W |-> [W EXCEPT ![c] = r.w], has |-> [has EXCEPT ![c] = r.present], evq |-> r.evq, ev |-> r.ev]
      [] e.ev = "api" /\ e.side = "S" /\ e.call = "disconnect_all" ->
            [W |-> [x \in DOMAIN W |-> IF has[x] THEN DoApi(W[x], "S", "disconnect").w ELSE W[x]], has |-> has, evq |-> evq, ev |-> [ev |-> "api"]]
      [] e.ev = "api" /\ e.side = "S" -> IF absent THEN Same(Gone(e) @@ [call |-> e.call]) ELSE OnConn(c, DoApi(W[c], "S", e.call))
      [] e.ev = "get_event" ->
            [W |-> W, has |-> has, evq |-> IF evq = <<>> THEN evq ELSE Tail(evq),
             ev |-> [ev |-> "get_event",
                     res |-> IF evq = <<>> THEN [some |-> FALSE, type |-> "None", id |-> 0, reason |-> "None"]
                             ELSE [some |-> TRUE, type |-> Head(evq).type, id |-> Head(evq).id, reason |-> Head(evq).reason],
                     ids |-> SortedC({x \in DOMAIN W : has[x] /\ W[x].ep["S"].status = "Connected"})]]
      [] e.ev = "bcast" ->
            [W |-> BcastAll(W, {x \in DOMAIN W : has[x] /\ x # e.except}, e), has |-> has, evq |-> evq,
             ev |-> [ev |-> "bcast", targets |-> SortedC({x \in DOMAIN W : has[x] /\ W[x].ep["S"].status # "Disc"})]]

Known(e) == e.ev \in {"send", "recv", "flush", "deliver", "update", "api", "get_event", "bcast"}
Unmodelled(e) == FALSE
\* the harness clock of a server side connection is the server's, the model's restarts with every add_connection
Ignore(e) == (IF e.ev = "update" /\ e.conn = 0 THEN {"conn", "st0", "st1", "dt", "t", "side"} ELSE {})
             \cup (IF e.ev \in {"flush", "update"} /\ e.side = "S" THEN {"t"} ELSE {})

Next == /\ l <= Len(Rec)
        /\ l' = l + 1
        /\ LET e == Rec[l] IN
           IF e.ev = "reset"
           THEN /\ W' = [c \in {e.cfg.conns[i] : i \in 1..Len(e.cfg.conns)} |->
                          IF "manual" \in DOMAIN e.cfg /\ e.cfg.manual THEN [NewWorld EXCEPT !.ep["C"].status = "Connecting"] ELSE NewWorld]
                /\ has' = [c \in {e.cfg.conns[i] : i \in 1..Len(e.cfg.conns)} |-> ~("manual" \in DOMAIN e.cfg /\ e.cfg.manual)]
                /\ evq' = <<>> /\ skip' = FALSE
                /\ cnt' = [cnt EXCEPT !.runs = @ + 1, !.accepted = IF ~skip /\ cnt.runs > 0 THEN @ + 1 ELSE @]
           ELSE IF skip THEN UNCHANGED <<W, has, evq, skip, cnt>>
           ELSE IF e.ev = "heal" THEN /\ W' = (IF e.lose THEN [c \in DOMAIN W |-> DoLose(W[c])] ELSE W) /\ UNCHANGED <<has, evq, skip, cnt>>
           ELSE IF Unmodelled(e) THEN /\ skip' = TRUE /\ cnt' = [cnt EXCEPT !.unmodelled = @ + 1] /\ UNCHANGED <<W, has, evq>>
           ELSE IF ~Known(e) THEN UNCHANGED <<W, has, evq, skip, cnt>>
           ELSE IF e.ev = "deliver" /\ e.label = "genuine" /\ has[e.conn] /\
                   ~(e.fl \in 1..Len(W[e.conn].net[Other(e.side)]) /\ e.ix \in 1..Len(W[e.conn].net[Other(e.side)][e.fl]))
           THEN /\ skip' = TRUE /\ cnt' = [cnt EXCEPT !.drift = @ + 1] /\ UNCHANGED <<W, has, evq>>
                /\ PrintT(<<"DRIFT", ToJson([run |-> e.run, i |-> e.i, ev |-> e.ev, fields |-> {"no such packet in the model"}])>>)
           ELSE LET p == Predict(e)
                    d == Diff(p.ev, e, Ignore(e))
                IN IF d = {}
                   THEN /\ W' = TLCEval(p.W) /\ has' = p.has /\ evq' = p.evq /\ skip' = FALSE /\ cnt' = [cnt EXCEPT !.matched = @ + 1]
                   ELSE /\ skip' = TRUE /\ cnt' = [cnt EXCEPT !.drift = @ + 1] /\ UNCHANGED <<W, has, evq>>
                        /\ PrintT(<<"DRIFT", ToJson([run |-> e.run, i |-> e.i, ev |-> e.ev, fields |-> d])>>)

Spec == Init /\ [][Next]_vars
Consumed == TLCGet("stats").diameter = Len(Rec) + 1
Done == l <= Len(Rec) \/ PrintT(<<"STRICT", ToJson([cnt EXCEPT !.accepted = IF ~skip /\ cnt.runs > 0 THEN @ + 1 ELSE @])>>)
=============================================================================
