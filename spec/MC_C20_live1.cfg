\* C20 liveness on the glue model, one client (the two-client configuration MC_C20_live runs in the thorough tier): unbounded interleavings (MaxSteps = 0) of client steps, server steps, event reads and up to
\* two application initiated disconnects, the relay passing or dropping anything for ever, 1 s time-out = 3 silent updates of
\* 400 ms.  Under weak fairness of every endpoint's steps: once somebody asked for a disconnect (or a time-out fired) the
\* session ends on both sides and in both layers, and the application has read a Disconnected event for every Connected one.
SPECIFICATION LiveSpec
CONSTANTS
  Ids = {1}
  MaxSteps = 0
  MaxDisc = 2
  Export = FALSE
  ExportOneIn = 1
  StepDt = 400
  TimeoutS = 1
  TimeoutSteps = 3
INVARIANT LockStep
INVARIANT EventsOnce
INVARIANT OnlyAsked
INVARIANT NoEarlyTimeout
PROPERTY EndsOnBothSides
PROPERTY EventsComplete
CHECK_DEADLOCK FALSE
