\* C09 quick 4: ReliableOrdered channel whose budget (12 bytes) is exactly what the three messages (2, 5, 5 bytes) need; the sender
\* may flush after every send (three packets), every packet may be delivered twice, in any order, or be lost until the heal:
\* with the first message missing and the others buffered a duplicate must not exhaust the channel (NoSpuriousDisconnect),
\* after the good rounds everything is obtained and both budgets are whole again (NoLeak, Range).
SPECIFICATION Spec
CONSTANTS
  ChSC <- Ch_RO12
  ChCS <- Ch_RO12
  SeqBase = 0
  MidBase = 0
  Budget = 60000
  Workload <- WL_2_5_5
  MaxFlushS = 0
  MaxFlushC = 3
  MaxTicks = 0
  Dts = {300}
  MaxDeliver = 2
  HealDt = 300
  HealRounds = 3
  Bound = 3
  HealLose = {TRUE}
  Reorder = TRUE
  RecvAnywhere = FALSE
  PropsOn <- P_C09
  MaxHostile = 0
  HostileSet = "none"
  ExportAll = FALSE
  Export = TRUE
INVARIANT NoFlag
INVARIANT ExportInv
VIEW View
CHECK_DEADLOCK FALSE
