------------------------------- MODULE RenetObs -------------------------------
(***************************************************************************)
(* Observer for the renet message layer.                                   *)
(*                                                                         *)
(* The observer is a pure function  ObsStep(o, e)  from an observer state  *)
(* and one API-level event (the same record shape whether the event was    *)
(* produced by the implementation-shaped model Renet.tla or logged by the  *)
(* Rust harness from the real code) to the next observer state.  It only   *)
(* keeps history about API-visible facts and evaluates the properties      *)
(* C01 C02 C03 C06 C08 C09 C12 C13 C14 C15 on them; a failed clause is     *)
(* recorded in  o.flags  as  <<property id, clause name>>.                 *)
(*                                                                         *)
(* The observer is total: any well-formed event is accepted.               *)
(***************************************************************************)
EXTENDS Integers, Sequences, FiniteSets, TLC

SLICE   == 1200
HORIZON == 3000
BIG     == 1073741823      \* the harness clamps every number that TLC cannot read to this value
MAXPKT  == 1300

Get(f, k, d) == IF k \in DOMAIN f THEN f[k] ELSE d
Put(f, k, v) == TLCEval([x \in (DOMAIN f) \cup {k} |-> IF x = k THEN v ELSE f[x]])
Drop(f, K)   == TLCEval([x \in (DOMAIN f) \ K |-> f[x]])
Range(s)     == {s[i] : i \in DOMAIN s}
Min2(a, b)   == IF a < b THEN a ELSE b
Max2(a, b)   == IF a > b THEN a ELSE b
CeilDiv(a, b) == (a + b - 1) \div b
NSlices(len) == CeilDiv(len, SLICE)
Other(side)   == IF side = "S" THEN "C" ELSE "S"
SendDir(side) == IF side = "S" THEN "sc" ELSE "cs"
RecvDir(side) == IF side = "S" THEN "cs" ELSE "sc"
SenderOf(dir)   == IF dir = "sc" THEN "S" ELSE "C"
ReceiverOf(dir) == IF dir = "sc" THEN "C" ELSE "S"
Alive(status) == status \in {"Connected", "Connecting"}

RECURSIVE SumSeq(_, _)
SumSeq(s, i) == IF i > Len(s) THEN 0 ELSE s[i] + SumSeq(s, i + 1)

(***************************************************************************)
(* Observer state                                                          *)
(***************************************************************************)
EmptyCfg == [conns |-> <<>>, sc |-> <<>>, cs |-> <<>>, budget |-> 0, props |-> <<>>]

ObsInit == [cfg |-> EmptyCfg, str |-> <<>>, ep |-> <<>>, flags |-> {}, heal |-> <<>>, srv |-> <<>>]

ChanIdx(cfg, dir, ch) == CHOOSE i \in 1..Len(cfg[dir]) : cfg[dir][i].id = ch
HasChan(cfg, dir, ch) == \E i \in 1..Len(cfg[dir]) : cfg[dir][i].id = ch

StreamKeys(cfg) ==
    UNION { { <<cd[1], cd[2], cfg[cd[2]][i].id>> : i \in 1..Len(cfg[cd[2]]) } :
            cd \in Range(cfg.conns) \X {"sc", "cs"} }

NewStream(cfg, k) ==
    LET i == ChanIdx(cfg, k[2], k[3])
        c == cfg[k[2]][i]
    IN [kind |-> c.kind, max |-> c.max, resend |-> c.resend, ci |-> i,
        sub    |-> <<>>,   \* cids passed to send_message, in order (accepted or not)
        acc    |-> <<>>,   \* accepted messages [cid, len], index = message id + 1
        nGot   |-> 0,      \* number of messages obtained
        gotN   |-> <<>>,   \* cid -> number of times obtained
        subN   |-> <<>>,   \* cid -> number of times submitted
        hSmall |-> {},     \* reliable message ids handed to the peer in a small packet
        hSl    |-> {},     \* <<mid, idx>> reliable slices handed to the peer
        compl  |-> {},     \* message ids for which every needed packet was handed to the peer
        complN |-> <<>>,   \* cid -> number of complete message ids with that content
        owed   |-> {},     \* cids with complN > gotN (complete but not yet obtained)
        relSeen |-> {},    \* message ids already seen released by the sender
        uCred  |-> <<>>,   \* unreliable: cid -> how many copies the deliveries so far can justify
        uSl    |-> <<>>,   \* unreliable slices: <<usid, n, mcid>> -> (idx -> deliveries)
        lastS  |-> <<>>,   \* mid -> time of the last transmission in a small packet
        lastSl |-> <<>>,   \* <<mid, idx>> -> time of the last transmission
        ackS   |-> {},     \* mids for which an ack of a carrying packet was processed
        ackSl  |-> {},     \* <<mid, idx>> likewise
        cB     |-> 0,      \* C09: bytes of reliable messages complete at the receiver (each message once)
        gB     |-> 0,      \* C09: bytes of messages obtained by the application
        openB  |-> 0,      \* C09: n*SLICE over reliable reassemblies that are legitimately open
        uOpen  |-> <<>>,   \* C09: unreliable reassemblies legitimately open: usid -> [n, got, len, last]
        uFl    |-> <<>>,   \* unreliable: cid -> flush number in which it was emitted
        uSent  |-> <<>>    \* unreliable: accepted [cid, len, fl] since last flush (fl = flush count at send)
       ]

NewEp == [status |-> "Connected", reason |-> "None", now |-> 0, rx |-> {}, sent |-> <<>>, nfl |-> 0, seen |-> FALSE]

EpKeys(cfg) == Range(cfg.conns) \X {"S", "C"}

ObsReset(cfg) ==
    [cfg |-> cfg,
     str |-> [k \in StreamKeys(cfg) |-> NewStream(cfg, k)],
     ep  |-> [k \in EpKeys(cfg) |-> NewEp],
     flags |-> {},
     heal |-> [c \in Range(cfg.conns) |-> [on |-> FALSE, bound |-> -1, rounds |-> 0]],
     \* C12: per client id, what the server's event stream must look like: is a ClientConnected outstanding, and the
     \* reasons of the removals not yet reported (FIFO)
     srv |-> [c \in Range(cfg.conns) |-> [up |-> ~("manual" \in DOMAIN cfg /\ cfg.manual), expect |-> <<>>, owed |-> 0]]]

Props(o) == Range(o.cfg.props)
\* history is only kept for the clauses that are evaluated in this run (keeps the monitor state small)
Want(o, P) == Props(o) \cap P # {}
WantAcc(o)  == Want(o, {"C02", "C08", "C09", "C15", "C11", "C14"})
WantHand(o) == Want(o, {"C02", "C08", "C09"})
WantTx(o)   == Want(o, {"C15", "C11", "C14"})
WantCnt(o)  == Want(o, {"C01", "C02", "C03"})
Flag(o, F) == [o EXCEPT !.flags = @ \cup F]
FlagIf(o, cond, f) == IF cond THEN Flag(o, {f}) ELSE o

(***************************************************************************)
(* Endpoint bookkeeping common to every event that carries st0/st1         *)
(***************************************************************************)
MemOK(o, conn, side, st) ==
    LET sd == o.cfg[SendDir(side)]
        rd == o.cfg[RecvDir(side)]
    IN  /\ \A i \in 1..Len(sd) : i \in DOMAIN st.avail => (st.avail[i] >= 0 /\ st.avail[i] <= sd[i].max)
        /\ \A i \in 1..Len(rd) : i \in DOMAIN st.rmem  => (st.rmem[i]  >= 0 /\ st.rmem[i]  <= rd[i].max)

\* C08: every message the sender no longer retransmits must be completely in the hands of the peer.
ReleaseCheck(o, conn, side, st) ==
    LET dir == SendDir(side)
        ks  == {k \in DOMAIN o.str : k[1] = conn /\ k[2] = dir /\ o.str[k].kind # "U"}
        Rel(k) == LET s == o.str[k]
                      un == IF s.ci \in DOMAIN st.unacked THEN Range(st.unacked[s.ci]) ELSE {}
                  IN  {m \in 0..(Len(s.acc) - 1) : m \notin un}
        bad == {k \in ks : ~((Rel(k) \ o.str[k].relSeen) \subseteq o.str[k].compl)}
        o1  == [o EXCEPT !.str = [k \in DOMAIN o.str |-> IF k \in ks THEN [o.str[k] EXCEPT !.relSeen = Rel(k)] ELSE o.str[k]]]
    IN  FlagIf(o1, bad # {}, <<"C08", "ReleaseSound">>)

\* C09: what the observer can justify, from API-visible facts only, as accounted to a channel
NeedS(o, s, st) ==
    IF s.kind = "U" THEN SumSeq([j \in 1..Len(s.uSent) |-> s.uSent[j].len], 1)
    ELSE LET un == IF s.ci \in DOMAIN st.unacked THEN st.unacked[s.ci] ELSE <<>>
         IN SumSeq([j \in 1..Len(un) |-> IF un[j] >= 0 /\ un[j] < Len(s.acc) THEN s.acc[un[j] + 1].len ELSE 0], 1)
RECURSIVE SumOpen(_, _)
SumOpen(uo, ids) == IF ids = {} THEN 0 ELSE LET x == CHOOSE y \in ids : TRUE IN uo[x].n * SLICE + SumOpen(uo, ids \ {x})
NeedR(o, s) == (s.cB - s.gB) + (IF s.kind = "U" THEN SumOpen(s.uOpen, DOMAIN s.uOpen) ELSE s.openB)

NoLeakOK(o, conn, side, st) ==
    /\ \A k \in {x \in DOMAIN o.str : x[1] = conn /\ x[2] = SendDir(side)} :
          LET s == o.str[k] IN s.ci \in DOMAIN st.avail => (s.max - st.avail[s.ci]) <= NeedS(o, s, st)
    /\ \A k \in {x \in DOMAIN o.str : x[1] = conn /\ x[2] = RecvDir(side)} :
          LET s == o.str[k] IN s.ci \in DOMAIN st.rmem => st.rmem[s.ci] <= NeedR(o, s)

\* C09: a memory-exhaustion disconnect is justified if the legitimately accounted bytes (before the call) plus the
\* generous size of what the call brings (the message, every message of the packet, the whole reservation of a
\* slice) exceed the channel budget
MemDiscJustified(o, e) ==
    IF e.ev = "send" THEN
        LET k == <<e.conn, e.dir, e.ch>> IN
        k \notin DOMAIN o.str \/ NeedS(o, o.str[k], e.st0) + e.len > o.str[k].max
    ELSE IF e.ev = "deliver" THEN TRUE    \* decided by ObsDeliver from the state BEFORE the packet was handed over (DeliverDiscJustified)
    ELSE FALSE

\* What a genuine packet can legitimately add to the memory accounted to its receive channel: the messages the peer does not
\* have yet (a duplicate of a message that is buffered or was consumed costs nothing: "however packets were ... duplicated"),
\* the whole reservation of a sliced message whose reassembly is not open yet.  s = the stream BEFORE this delivery.
RECURSIVE NewSmallBytes(_, _, _)
NewSmallBytes(s, msgs, i) ==
    IF i > Len(msgs) THEN 0
    ELSE (IF msgs[i].mid \in s.compl THEN 0 ELSE msgs[i].len) + NewSmallBytes(s, msgs, i + 1)
IncomingNew(s, p) ==
    IF p.kind = "SR" THEN NewSmallBytes(s, p.msgs, 1)
    ELSE IF p.kind = "RS" THEN (IF p.sl.mid \in s.compl \/ (\E x \in s.hSl : x[1] = p.sl.mid) THEN 0 ELSE p.sl.n * SLICE)
    ELSE IF p.kind = "US" THEN p.sl.n * SLICE
    ELSE p.pay
DeliverDiscJustified(o, e) ==
    LET k == <<e.conn, e.dir, e.p.ch>> IN
    k \notin DOMAIN o.str \/ e.label # "genuine" \/ NeedR(o, o.str[k]) + IncomingNew(o.str[k], e.p) > o.str[k].max

EpSeen(o, e) ==
    LET k == <<e.conn, e.side>> IN
    IF k \notin DOMAIN o.ep THEN o ELSE
    LET st == e.st1
        o1 == [o EXCEPT !.ep[k].status = st.status, !.ep[k].reason = st.reason, !.ep[k].seen = TRUE]
        o2 == FlagIf(o1, st.status \notin {"Gone", "Panic"} /\ ~MemOK(o, e.conn, e.side, st), <<"C09", "Range">>)
        o3 == FlagIf(o2, st.status \notin {"Gone", "Panic"} /\ ~MemOK(o, e.conn, e.side, st), <<"C06", "MemoryBounded">>)
        o4 == FlagIf(o3, st.status = "Panic", <<"C06", "StillUsable">>)
        o5 == IF Alive(st.status) /\ "C08" \in Props(o) THEN ReleaseCheck(o4, e.conn, e.side, st) ELSE o4
        \* C12: once disconnected, always disconnected with the same reason
        was == o.ep[k]
        o6 == FlagIf(o5, was.seen /\ was.status = "Disc" /\ (st.status # "Disc" \/ st.reason # was.reason) /\ st.status # "Gone",
                     <<"C12", "Absorbing">>)
        o7 == IF "C09" \in Props(o) /\ Alive(st.status) /\ e.ev # "flush"
              THEN FlagIf(o6, ~NoLeakOK(o6, e.conn, e.side, st), <<"C09", "NoLeak">>) ELSE o6
        \* C09: a disconnect for exhausted channel memory must be justified by what legitimately occupies the channel
        o8 == IF "C09" \in Props(o) /\ st.status = "Disc" /\ was.status # "Disc" /\ st.reason \in {"SendMem", "RecvMem"}
              THEN FlagIf(o7, ~MemDiscJustified(o, e), <<"C09", "NoSpuriousDisconnect">>) ELSE o7
    IN o8

(***************************************************************************)
(* send_message                                                            *)
(***************************************************************************)
ObsSend(o, e) ==
    LET k == <<e.conn, e.dir, e.ch>> IN
    IF k \notin DOMAIN o.str THEN EpSeen(o, e) ELSE
    LET s  == o.str[k]
        ci == s.ci
        accepted == /\ Alive(e.st0.status)
                    /\ Alive(e.st1.status)
                    /\ (s.kind # "U" \/ e.st1.avail[ci] = e.st0.avail[ci] - e.len)
        nfl == o.ep[<<e.conn, e.side>>].nfl
        s1 == [s EXCEPT !.sub = IF s.kind = "RO" /\ Want(o, {"C01"}) THEN Append(@, e.cid) ELSE @,
                        !.subN = IF WantCnt(o) THEN Put(@, e.cid, Get(@, e.cid, 0) + 1) ELSE @,
                        !.acc = IF accepted /\ s.kind # "U" /\ WantAcc(o) THEN Append(@, [cid |-> e.cid, len |-> e.len]) ELSE @,
                        !.uSent = IF accepted /\ s.kind = "U" /\ Want(o, {"C14", "C09", "C11"}) THEN Append(@, [cid |-> e.cid, len |-> e.len, fl |-> nfl]) ELSE @]
        \* C12: a disconnected endpoint accepts nothing (its accounting does not move)
        o1 == FlagIf([o EXCEPT !.str[k] = s1],
                     e.st0.status = "Disc" /\ (e.st1.avail # e.st0.avail \/ e.st1.unacked # e.st0.unacked), <<"C12", "Absorbing">>)
    IN EpSeen(o1, e)

\* broadcast_message(_except): a submission on the stream of every connection in the table that is not
\* disconnected, minus the excluded one (C11: reaches exactly its targets, exactly once on reliable channels)
RECURSIVE BcastInto(_, _, _)
BcastInto(o, e, ts) ==
    IF ts = <<>> THEN o ELSE
    LET k == <<Head(ts), "sc", e.ch>> IN
    IF k \notin DOMAIN o.str \/ Head(ts) = e.except THEN BcastInto(o, e, Tail(ts)) ELSE
    LET s == o.str[k]
        s1 == [s EXCEPT !.sub = IF s.kind = "RO" /\ Want(o, {"C01"}) THEN Append(@, e.cid) ELSE @,
                        !.subN = IF WantCnt(o) THEN Put(@, e.cid, Get(@, e.cid, 0) + 1) ELSE @,
                        !.acc = IF s.kind # "U" /\ WantAcc(o) THEN Append(@, [cid |-> e.cid, len |-> e.len]) ELSE @]
    IN BcastInto([o EXCEPT !.str[k] = s1], e, Tail(ts))

ObsBcast(o, e) == BcastInto(o, e, e.targets)

(***************************************************************************)
(* receive_message                                                         *)
(***************************************************************************)
UCredit(s, cid) == Get(s.uCred, cid, 0)

ObsRecv(o, e) ==
    LET k == <<e.conn, e.dir, e.ch>> IN
    IF k \notin DOMAIN o.str THEN EpSeen(o, e) ELSE
    LET s   == o.str[k]
        n1  == IF e.some THEN s.nGot + 1 ELSE s.nGot
        g1  == IF e.some /\ WantCnt(o) THEN Put(s.gotN, e.cid, Get(s.gotN, e.cid, 0) + 1) ELSE s.gotN
        owed1 == IF e.some /\ Get(s.complN, e.cid, 0) <= Get(g1, e.cid, 0) THEN s.owed \ {e.cid} ELSE s.owed
        s1  == [s EXCEPT !.nGot = n1, !.gotN = g1, !.owed = owed1, !.gB = IF e.some THEN @ + e.len ELSE @]
        F == (IF e.some /\ e.cid \notin DOMAIN s.subN THEN {<<"C03", "Same">>} ELSE {})
             \cup (IF e.some /\ s.kind = "RO" /\ Want(o, {"C01"}) /\ ~(n1 <= Len(s.sub) /\ s.sub[n1] = e.cid)
                   THEN {<<"C01", "Prefix">>} ELSE {})
             \cup (IF e.some /\ s.kind = "RU" /\ Get(g1, e.cid, 0) > Get(s.subN, e.cid, 0)
                   THEN {<<"C02", "AtMostOnce">>} ELSE {})
             \cup (IF ~e.some /\ s.kind = "RU" /\ Alive(e.st0.status) /\ Want(o, {"C02"}) /\ s.owed # {}
                   THEN {<<"C02", "Eager">>} ELSE {})
             \cup (IF e.some /\ s.kind = "U" /\ Want(o, {"C03"}) /\ Get(g1, e.cid, 0) > UCredit(s, e.cid)
                   THEN {<<"C03", "UnrelCount">>} ELSE {})
             \cup (IF e.some /\ e.st0.status = "Disc" THEN {<<"C12", "Absorbing">>} ELSE {})
    IN EpSeen(Flag([o EXCEPT !.str[k] = s1], F), e)

(***************************************************************************)
(* process_packet                                                          *)
(***************************************************************************)
\* a reliable message id became complete at the peer
MarkComplete(s, m) ==
    IF m \in s.compl THEN s ELSE
    LET c  == s.acc[m + 1].cid
        cn == Get(s.complN, c, 0) + 1
    IN [s EXCEPT !.compl = @ \cup {m}, !.complN = Put(@, c, cn),
                 !.owed = IF cn > Get(s.gotN, c, 0) THEN @ \cup {c} ELSE @,
                 !.cB = @ + s.acc[m + 1].len]

RECURSIVE HandSmall(_, _, _)
HandSmall(s, msgs, i) ==
    IF i > Len(msgs) THEN s ELSE
    LET m == msgs[i]
        ok == m.mid >= 0 /\ m.mid < Len(s.acc) /\ s.acc[m.mid + 1].cid = m.cid /\ s.acc[m.mid + 1].len = m.len
                /\ m.len <= SLICE
        s1 == IF ok THEN MarkComplete([s EXCEPT !.hSmall = @ \cup {m.mid}], m.mid) ELSE s
    IN HandSmall(s1, msgs, i + 1)

HandSlice(s, sl) ==
    LET ok == sl.mid >= 0 /\ sl.mid < Len(s.acc) /\ s.acc[sl.mid + 1].cid = sl.mcid
                /\ s.acc[sl.mid + 1].len > SLICE /\ NSlices(s.acc[sl.mid + 1].len) = sl.n
                /\ sl.idx >= 0 /\ sl.idx < sl.n
    IN IF ~ok THEN s ELSE
       LET h1 == s.hSl \cup {<<sl.mid, sl.idx>>}
           first == sl.mid \notin s.compl /\ ~(\E i \in 0..(sl.n - 1) : <<sl.mid, i>> \in s.hSl)
           done == \A i \in 0..(sl.n - 1) : <<sl.mid, i>> \in h1
           \* a reassembly opens with the first slice and closes when the message is complete
           s1 == [s EXCEPT !.hSl = h1,
                           !.openB = IF sl.mid \in s.compl THEN @
                                     ELSE IF first /\ ~done THEN @ + sl.n * SLICE
                                     ELSE IF ~first /\ done THEN @ - sl.n * SLICE ELSE @]
       IN IF done THEN MarkComplete(s1, sl.mid) ELSE s1

RECURSIVE CreditSmall(_, _, _)
CreditSmall(s, msgs, i) ==
    IF i > Len(msgs) THEN s ELSE
    CreditSmall([s EXCEPT !.uCred = Put(@, msgs[i].cid, Get(@, msgs[i].cid, 0) + 1), !.cB = @ + msgs[i].len], msgs, i + 1)

\* C09: an unreliable reassembly is open from the slice that made the endpoint reserve memory for it until it completes or 3 s
\* pass without a slice of it.  A slice that finds no reassembly of its message either opens one (the endpoint reserves n * SLICE
\* bytes) or is dropped because the channel has no room for the reservation (no memory is taken; unreliable channels may drop):
\* which of the two happened is read from the memory the call took (delta), and any other change of the accounted memory is
\* not explained by what was handed over.  Result: [s, ok].
UOpenSlice(s, sl, now, delta) ==
    IF ~(sl.idx >= 0 /\ sl.idx < sl.n /\ sl.n < 100000) THEN [s |-> s, ok |-> TRUE] ELSE
    LET has == sl.mid \in DOMAIN s.uOpen
        cur == IF has THEN s.uOpen[sl.mid] ELSE [n |-> sl.n, got |-> {}, len |-> 0, last |-> now]
        isnew == sl.idx \notin cur.got
        c1 == [cur EXCEPT !.got = @ \cup {sl.idx}, !.len = IF isnew THEN @ + sl.len ELSE @, !.last = now]
        full == c1.got = 0..(c1.n - 1)
        completed == [s EXCEPT !.uOpen = Drop(@, {sl.mid}), !.cB = @ + c1.len]
        stored == [s EXCEPT !.uOpen = Put(@, sl.mid, c1)]
        \* an unreliable channel may ignore any packet (e.g. a datagram it recognises as a duplicate): a slice that would have
        \* completed the message but left the accounted memory untouched was not stored -- the reassembly stays open (and counts)
        \* until it completes or goes stale; nothing is demanded that the property does not state
        ignored == [s EXCEPT !.uOpen = Put(@, sl.mid, [cur EXCEPT !.last = now])]
    IN IF has
       THEN IF full THEN (IF delta = c1.len - c1.n * SLICE THEN [s |-> completed, ok |-> TRUE]
                          ELSE IF delta = 0 THEN [s |-> ignored, ok |-> TRUE]
                          ELSE [s |-> completed, ok |-> FALSE])
            ELSE [s |-> stored, ok |-> delta = 0]
       ELSE IF delta = 0 THEN [s |-> s, ok |-> TRUE]                       \* no room for the reservation: dropped
            ELSE IF full THEN [s |-> completed, ok |-> delta = c1.len]
            ELSE [s |-> stored, ok |-> delta = c1.n * SLICE]

CreditSlice(s, sl) ==
    IF ~(sl.idx >= 0 /\ sl.idx < sl.n /\ sl.n < 100000) THEN s ELSE
    LET key == <<sl.mid, sl.n, sl.mcid>>
        cnt == Get(s.uSl, key, <<>>)
        MinOf(c) == IF \E i \in 0..(sl.n - 1) : i \notin DOMAIN c THEN 0
                    ELSE CHOOSE v \in {c[i] : i \in 0..(sl.n - 1)} : \A i \in 0..(sl.n - 1) : v <= c[i]
        old == MinOf(cnt)
        c1  == Put(cnt, sl.idx, Get(cnt, sl.idx, 0) + 1)
        new == MinOf(c1)
    IN [s EXCEPT !.uSl = Put(@, key, c1),
                 !.uCred = IF new > old THEN Put(@, sl.mcid, Get(@, sl.mcid, 0) + 1) ELSE @]

\* keys of a sent packet that an acknowledgement releases
AckMark(o, conn, side, seqs) ==
    LET ek == <<conn, side>>
        sent == o.ep[ek].sent
        dir == SendDir(side)
        S(k) == UNION {sent[q].mids : q \in {x \in seqs : sent[x].ch = k[3] /\ sent[x].kind = "SR"}}
        L(k) == {sent[q].sl : q \in {x \in seqs : sent[x].ch = k[3] /\ sent[x].kind = "RS"}}
    IN [o EXCEPT !.str = [k \in DOMAIN o.str |->
                            IF k[1] = conn /\ k[2] = dir
                            THEN [o.str[k] EXCEPT !.ackS = @ \cup S(k), !.ackSl = @ \cup L(k)]
                            ELSE o.str[k]],
                 !.ep[ek].sent = Drop(sent, seqs)]

InRanges(q, ranges) == \E i \in 1..Len(ranges) : ranges[i][1] <= q /\ q < ranges[i][2]

ObsDeliver(o, e) ==
    LET ek == <<e.conn, e.side>>
        p  == e.p
        handed == Alive(e.st0.status) /\ p.kind \notin {"BAD", "PANIC"}
        genuine == e.label = "genuine"
        k  == <<e.conn, e.dir, p.ch>>
        o1 == IF handed /\ ek \in DOMAIN o.ep /\ Want(o, {"C08"}) THEN [o EXCEPT !.ep[ek].rx = @ \cup {p.seq}] ELSE o
        o2 == IF handed /\ genuine /\ k \in DOMAIN o1.str
              THEN LET s == o1.str[k] IN
                   CASE p.kind = "SR" /\ s.kind # "U" /\ WantHand(o) -> [o1 EXCEPT !.str[k] = HandSmall(s, p.msgs, 1)]
                     [] p.kind = "RS" /\ s.kind # "U" /\ WantHand(o) -> [o1 EXCEPT !.str[k] = HandSlice(s, p.sl)]
                     [] p.kind = "SU" /\ s.kind = "U" /\ Want(o, {"C03", "C09"}) -> [o1 EXCEPT !.str[k] = CreditSmall(s, p.msgs, 1)]
                     [] p.kind = "US" /\ s.kind = "U" /\ Want(o, {"C03"}) -> [o1 EXCEPT !.str[k] = CreditSlice(s, p.sl)]
                     [] p.kind = "US" /\ s.kind = "U" /\ Want(o, {"C09"}) ->
                            LET delta == IF s.ci \in DOMAIN e.st1.rmem /\ s.ci \in DOMAIN e.st0.rmem THEN e.st1.rmem[s.ci] - e.st0.rmem[s.ci] ELSE 0
                                r == UOpenSlice(s, p.sl, o1.ep[ek].now, delta)
                            IN FlagIf([o1 EXCEPT !.str[k] = r.s], ~r.ok /\ Alive(e.st1.status), <<"C09", "NoLeak">>)
                     [] OTHER -> o1
              ELSE o1
        o3 == IF handed /\ genuine /\ p.kind = "ACK" /\ ek \in DOMAIN o2.ep /\ WantTx(o)
              THEN AckMark(o2, e.conn, e.side, {q \in DOMAIN o2.ep[ek].sent : InRanges(q, p.ranges)})
              ELSE o2
        F == (IF e.st0.status = "Disc" /\ (e.st1.rmem # e.st0.rmem \/ e.st1.avail # e.st0.avail \/ e.st1.unacked # e.st0.unacked)
              THEN {<<"C12", "Absorbing">>} ELSE {})
             \cup (IF ~(e.st1.status = e.st0.status \/ e.st1.status = "Disc" \/ e.st0.status = "Gone")
                   THEN {<<"C06", "ProcessedOrDropped">>} ELSE {})
             \cup (IF e.st1.status = "Disc" /\ e.st1.reason = "None" THEN {<<"C06", "ProcessedOrDropped">>} ELSE {})
             \* C09: a disconnect for exhausted receive memory must be justified by what the channel legitimately holds plus what this
             \* packet newly brings (judged on the observer state before the hand-over)
             \* (C02 states its liveness without exception: a duplicate that ends the connection makes every message still on its
             \* way disappear -- the same event is a violation of C02 on a ReliableUnordered stream)
             \cup (IF Want(o, {"C09", "C02"}) /\ ek \in DOMAIN o.ep /\ o.ep[ek].status # "Disc" /\ e.st1.status = "Disc" /\ e.st1.reason = "RecvMem"
                      /\ ~DeliverDiscJustified(o, e)
                   THEN {<<"C09", "NoSpuriousDisconnect">>} \cup (IF k \in DOMAIN o.str /\ o.str[k].kind = "RU" THEN {<<"C02", "DupHarmless">>} ELSE {})
                   ELSE {})
    IN EpSeen(Flag(o3, F), e)

(***************************************************************************)
(* get_packets_to_send                                                     *)
(***************************************************************************)
PkIdx(o, dir, p) == IF p.kind = "ACK" \/ ~HasChan(o.cfg, dir, p.ch) THEN 0 ELSE ChanIdx(o.cfg, dir, p.ch)

RECURSIVE FlushPk(_, _, _, _, _)
\* folds over the packets of one flush: timing checks, last-transmission times, sent-packet table
FlushPk(o, e, pk, i, t) ==
    IF i > Len(pk) THEN o ELSE
    LET p  == pk[i]
        ek == <<e.conn, e.side>>
        k  == <<e.conn, e.dir, p.ch>>
    IN
    IF p.kind = "SR" /\ k \in DOMAIN o.str /\ o.str[k].kind # "U" THEN
        LET s == o.str[k]
            mids == {p.msgs[j].mid : j \in 1..Len(p.msgs)}
            early == \E m \in mids : m \in DOMAIN s.lastS /\ t - s.lastS[m] < s.resend
            after == mids \cap s.ackS # {}
            s1 == [s EXCEPT !.lastS = [m \in (DOMAIN @) \cup mids |-> IF m \in mids THEN t ELSE @[m]]]
            o1 == [o EXCEPT !.str[k] = s1,
                            !.ep[ek].sent = Put(@, p.seq, [t |-> t, kind |-> "SR", ch |-> p.ch, mids |-> mids, sl |-> <<-1, -1>>])]
            o2 == FlagIf(o1, early, <<"C15", "NotEarly">>)
            o3 == FlagIf(o2, after, <<"C15", "NeverAfterAck">>)
        IN FlushPk(o3, e, pk, i + 1, t)
    ELSE IF p.kind = "RS" /\ k \in DOMAIN o.str /\ o.str[k].kind # "U" THEN
        LET s == o.str[k]
            key == <<p.sl.mid, p.sl.idx>>
            early == key \in DOMAIN s.lastSl /\ t - s.lastSl[key] < s.resend
            after == key \in s.ackSl
            s1 == [s EXCEPT !.lastSl = Put(@, key, t)]
            o1 == [o EXCEPT !.str[k] = s1,
                            !.ep[ek].sent = Put(@, p.seq, [t |-> t, kind |-> "RS", ch |-> p.ch, mids |-> {}, sl |-> key])]
            o2 == FlagIf(o1, early, <<"C15", "NotEarly">>)
            o3 == FlagIf(o2, after, <<"C15", "NeverAfterAck">>)
        IN FlushPk(o3, e, pk, i + 1, t)
    ELSE FlushPk(o, e, pk, i + 1, t)

AckSoundOK(o, ek, pk) ==
    \A i \in 1..Len(pk) : pk[i].kind = "ACK" =>
        \A j \in 1..Len(pk[i].ranges) :
            LET r == pk[i].ranges[j] IN
            r[2] >= BIG \/ \A q \in r[1]..(r[2] - 1) : q \in o.ep[ek].rx

\* C15 prompt retransmission / C14 reliable data waits and is sent once there is room
PromptOK(o, e, t) ==
    LET pk == e.pk
        total == SumSeq([i \in 1..Len(pk) |-> pk[i].pay], 1)
        room == total + SLICE <= o.cfg.budget
        ks == {k \in DOMAIN o.str : k[1] = e.conn /\ k[2] = e.dir /\ o.str[k].kind # "U"}
        SentS(k) == UNION {{pk[i].msgs[j].mid : j \in 1..Len(pk[i].msgs)} : i \in {x \in 1..Len(pk) : pk[x].kind = "SR" /\ pk[x].ch = k[3]}}
        SentL(k) == {<<pk[i].sl.mid, pk[i].sl.idx>> : i \in {x \in 1..Len(pk) : pk[x].kind = "RS" /\ pk[x].ch = k[3]}}
        OKs(k) == LET s == o.str[k]
                      un == IF s.ci \in DOMAIN e.st0.unacked THEN Range(e.st0.unacked[s.ci]) ELSE {}
                  IN \A m \in un : (m >= 0 /\ m < Len(s.acc)) =>
                        IF s.acc[m + 1].len <= SLICE
                        THEN (m \in DOMAIN s.lastS /\ t - s.lastS[m] >= s.resend /\ m \notin s.ackS) => m \in SentS(k)
                        ELSE \A x \in 0..(NSlices(s.acc[m + 1].len) - 1) :
                                (<<m, x>> \in DOMAIN s.lastSl /\ t - s.lastSl[<<m, x>>] >= s.resend /\ <<m, x>> \notin s.ackSl)
                                    => <<m, x>> \in SentL(k)
    IN  ~room \/ \A k \in ks : OKs(k)

\* C11 / C14: what earlier channels left is available to later ones -- a queued message for which the budget of this
\* tick still has room (the bytes actually carried by this flush plus its own size fit) is not left behind
FitsOK(o, e, t) ==
    LET pk == e.pk
        total == SumSeq([i \in 1..Len(pk) |-> pk[i].pay], 1)
        ksU == {k \in DOMAIN o.str : k[1] = e.conn /\ k[2] = e.dir /\ o.str[k].kind = "U"}
        ksR == {k \in DOMAIN o.str : k[1] = e.conn /\ k[2] = e.dir /\ o.str[k].kind # "U"}
        CidsU(k) == UNION {{pk[i].msgs[j].cid : j \in 1..Len(pk[i].msgs)} : i \in {x \in 1..Len(pk) : pk[x].kind = "SU" /\ pk[x].ch = k[3]}}
                    \cup {pk[i].sl.mcid : i \in {x \in 1..Len(pk) : pk[x].kind = "US" /\ pk[x].ch = k[3]}}
        SentS(k) == UNION {{pk[i].msgs[j].mid : j \in 1..Len(pk[i].msgs)} : i \in {x \in 1..Len(pk) : pk[x].kind = "SR" /\ pk[x].ch = k[3]}}
        SentL(k) == {pk[i].sl.mid : i \in {x \in 1..Len(pk) : pk[x].kind = "RS" /\ pk[x].ch = k[3]}}
        OKu(k) == \A j \in 1..Len(o.str[k].uSent) :
                     LET u == o.str[k].uSent[j] IN (total + u.len <= o.cfg.budget) => u.cid \in CidsU(k)
        \* reliable messages never transmitted so far
        OKr(k) == LET s == o.str[k]
                      un == IF s.ci \in DOMAIN e.st0.unacked THEN Range(e.st0.unacked[s.ci]) ELSE {}
                  IN \A m \in un : (m >= 0 /\ m < Len(s.acc)) =>
                        IF s.acc[m + 1].len <= SLICE
                        THEN (m \notin DOMAIN s.lastS /\ total + s.acc[m + 1].len <= o.cfg.budget) => m \in SentS(k)
                        ELSE ((\A x \in 0..(NSlices(s.acc[m + 1].len) - 1) : <<m, x>> \notin DOMAIN s.lastSl)
                              /\ total + SLICE <= o.cfg.budget) => m \in SentL(k)
    IN (\A k \in ksU : OKu(k)) /\ (\A k \in ksR : OKr(k))

\* C14: an unreliable message leaves in the first flush after its send, whole, or never
UnrelWholeOK(o, e, nfl) ==
    LET pk == e.pk
        ks == {k \in DOMAIN o.str : k[1] = e.conn /\ k[2] = e.dir /\ o.str[k].kind = "U"}
        Small(k) == UNION {{pk[i].msgs[j].cid : j \in 1..Len(pk[i].msgs)} : i \in {x \in 1..Len(pk) : pk[x].kind = "SU" /\ pk[x].ch = k[3]}}
        Sl(k, c) == {pk[i].sl.idx : i \in {x \in 1..Len(pk) : pk[x].kind = "US" /\ pk[x].ch = k[3] /\ pk[x].sl.mcid = c}}
        Fresh(k) == {o.str[k].uSent[j].cid : j \in 1..Len(o.str[k].uSent)}
        OKk(k) == /\ (Small(k) \cup {pk[i].sl.mcid : i \in {x \in 1..Len(pk) : pk[x].kind = "US" /\ pk[x].ch = k[3]}}) \subseteq Fresh(k)
                  /\ \A j \in 1..Len(o.str[k].uSent) :
                        LET u == o.str[k].uSent[j] IN
                        u.len > SLICE => (Sl(k, u.cid) = {} \/ Sl(k, u.cid) = 0..(NSlices(u.len) - 1))
    IN \A k \in ks : OKk(k)

ObsFlush(o, e) ==
    LET ek == <<e.conn, e.side>> IN
    IF ek \notin DOMAIN o.ep THEN EpSeen(o, e) ELSE
    LET pk == e.pk
        t  == e.t
        nfl == o.ep[ek].nfl + 1
        data == SelectSeq(pk, LAMBDA p : p.kind # "ACK")
        total == SumSeq([i \in 1..Len(data) |-> data[i].pay], 1)
        idxs == [i \in 1..Len(data) |-> PkIdx(o, e.dir, data[i])]
        F == (IF total > o.cfg.budget THEN {<<"C14", "Bound">>} ELSE {})
             \cup (IF \E i \in 1..(Len(idxs) - 1) : idxs[i] > idxs[i + 1] THEN {<<"C14", "Order">>} ELSE {})
             \cup (IF \E i \in 1..Len(pk) : pk[i].bytes > MAXPKT \/ pk[i].kind \in {"BAD", "PANIC"} THEN {<<"C13", "Renet">>} ELSE {})
             \cup (IF e.st1.reason = "PacketSerialization" /\ e.st0.reason # "PacketSerialization" THEN {<<"C13", "Renet">>} ELSE {})
             \cup (IF Want(o, {"C08"}) /\ ~AckSoundOK(o, ek, pk) THEN {<<"C08", "AckSound">>} ELSE {})
             \cup (IF "pendok" \in DOMAIN e /\ ~e.pendok THEN {<<"C16", "AckSet">>} ELSE {})
             \cup (IF e.st0.status = "Disc" /\ Len(pk) > 0 THEN {<<"C12", "Absorbing">>} ELSE {})
             \cup (IF "C15" \in Props(o) /\ Alive(e.st0.status) /\ Alive(e.st1.status) /\ ~PromptOK(o, e, t) THEN {<<"C15", "Prompt">>} ELSE {})
             \cup (IF "C14" \in Props(o) /\ ~UnrelWholeOK(o, e, nfl) THEN {<<"C14", "UnreliableWhole">>} ELSE {})
             \cup (IF Want(o, {"C11", "C14"}) /\ Alive(e.st0.status) /\ Alive(e.st1.status) /\ ~FitsOK(o, e, t)
                   THEN {<<"C14", "FitsSent">>, <<"C11", "NotStarved">>} ELSE {})
        o1 == IF WantTx(o) THEN FlushPk(o, e, pk, 1, t) ELSE o
        \* unreliable messages queued before this flush are gone after it (sent or dropped)
        o2 == IF Want(o, {"C14", "C09", "C11"})
              THEN [o1 EXCEPT !.ep[ek].nfl = nfl,
                         !.str = [k \in DOMAIN o1.str |->
                                    IF k[1] = e.conn /\ k[2] = e.dir /\ o1.str[k].kind = "U" /\ Alive(e.st0.status)
                                    THEN [o1.str[k] EXCEPT !.uSent = <<>>] ELSE o1.str[k]]]
              ELSE o1
    IN EpSeen(Flag(o2, F), e)

(***************************************************************************)
(* update                                                                  *)
(***************************************************************************)
ObsUpdate(o, e) ==
    LET eks == IF e.side = "S" THEN {k \in DOMAIN o.ep : k[2] = "S"} ELSE {<<e.conn, "C">>} \cap DOMAIN o.ep
        Upd(ep) == [ep EXCEPT !.now = e.t,
                              !.sent = IF WantTx(o) THEN Drop(@, {q \in DOMAIN @ : e.t - @[q].t >= HORIZON}) ELSE @]
        o0 == [o EXCEPT !.ep = [k \in DOMAIN o.ep |-> IF k \in eks THEN Upd(o.ep[k]) ELSE o.ep[k]]]
        \* C09: unreliable fragments stop counting after 3 s without progress
        Stale(s) == {u \in DOMAIN s.uOpen : e.t - s.uOpen[u].last >= HORIZON}
        o1 == IF ~Want(o, {"C09"}) THEN o0
              ELSE [o0 EXCEPT !.str = [k \in DOMAIN o0.str |->
                        IF o0.str[k].kind = "U" /\ <<k[1], ReceiverOf(k[2])>> \in eks
                        THEN [o0.str[k] EXCEPT !.uOpen = Drop(@, Stale(o0.str[k]))] ELSE o0.str[k]]]
    IN IF e.conn = 0 THEN o1 ELSE EpSeen(o1, e)

(***************************************************************************)
(* liveness as safety: heal, good rounds                                   *)
(***************************************************************************)
ObsHeal(o, e) ==
    [o EXCEPT !.heal = [c \in DOMAIN o.heal |->
                          IF e.conn = 0 \/ e.conn = c THEN [on |-> TRUE, bound |-> e.bound, rounds |-> 0] ELSE o.heal[c]]]

AllObtained(s) ==
    \A c \in DOMAIN s.subN : Get(s.gotN, c, 0) = s.subN[c]

ObsRoundEnd(o, e) ==
    LET cs == {c \in DOMAIN o.heal : (e.conn = 0 \/ e.conn = c) /\ o.heal[c].on}
        h1 == [c \in DOMAIN o.heal |-> IF c \in cs THEN [o.heal[c] EXCEPT !.rounds = @ + 1] ELSE o.heal[c]]
        due == {c \in cs : h1[c].bound >= 0 /\ h1[c].rounds >= h1[c].bound
                           /\ o.ep[<<c, "S">>].status = "Connected" /\ o.ep[<<c, "C">>].status = "Connected"}
        Late(kind) == \E k \in DOMAIN o.str : k[1] \in due /\ o.str[k].kind = kind /\ ~AllObtained(o.str[k])
        F == (IF Late("RO") THEN {<<"C01", "Live">>} ELSE {}) \cup (IF Late("RU") THEN {<<"C02", "Live">>} ELSE {})
    IN Flag([o EXCEPT !.heal = h1], F)

(***************************************************************************)
(* transport-status and server API calls (C12)                             *)
(***************************************************************************)
\* a call that removed the server side connection of a client owes the application exactly one ClientDisconnected
\* carrying the reason the connection was first disconnected with (Transport / DisconnectedByClient if it was healthy)
ObsApi(o, e) ==
    LET c == e.conn
        removed == e.side = "S" /\ c \in DOMAIN o.srv /\ e.st0.status # "Gone" /\ e.st1.status = "Gone"
        added == e.side = "S" /\ c \in DOMAIN o.srv /\ e.st0.status = "Gone" /\ e.st1.status # "Gone"
        why == IF e.st0.status = "Disc" THEN e.st0.reason
               ELSE IF e.call = "disconnect_local_client" THEN "DisconnectedByClient" ELSE "Transport"
        o1 == IF removed THEN [o EXCEPT !.srv[c].expect = Append(@, why)]
              ELSE IF added THEN [o EXCEPT !.srv[c].owed = @ + 1] ELSE o
        \* C12: transport status calls do not revive a disconnected connection
        o2 == FlagIf(o1, e.st0.status = "Disc" /\ e.st1.status \notin {"Disc", "Gone"}, <<"C12", "Absorbing">>)
        \* new_local_client hands out a NEW client object: what was known about the old one no longer applies
        o3 == IF e.call = "new_local_client" /\ <<c, "C">> \in DOMAIN o2.ep THEN [o2 EXCEPT !.ep[<<c, "C">>] = NewEp] ELSE o2
        \* the other local-client calls act on the client object as well (cst1 = its projection after the call):
        \* a disconnected client stays disconnected with its first reason whatever the server does with it
        k == <<c, "C">>
        o4 == IF "cst1" \in DOMAIN e /\ e.call # "new_local_client" /\ k \in DOMAIN o3.ep
              THEN LET was == o3.ep[k] IN
                   FlagIf([o3 EXCEPT !.ep[k].status = e.cst1.status, !.ep[k].reason = e.cst1.reason, !.ep[k].seen = TRUE],
                          was.seen /\ was.status = "Disc" /\ (e.cst1.status # "Disc" \/ e.cst1.reason # was.reason), <<"C12", "Absorbing">>)
              ELSE o3
    IN EpSeen(o4, e)

ObsGetEvent(o, e) ==
    IF ~e.res.some \/ e.res.id \notin DOMAIN o.srv THEN o ELSE
    LET c == e.res.id
        s == o.srv[c]
    IN IF e.res.type = "Connected"
       THEN Flag([o EXCEPT !.srv[c].up = TRUE, !.srv[c].owed = IF @ > 0 THEN @ - 1 ELSE 0],
                 (IF s.up THEN {<<"C12", "Alternation">>} ELSE {}) \cup (IF s.owed = 0 THEN {<<"C12", "Alternation">>} ELSE {}))
       ELSE Flag([o EXCEPT !.srv[c].up = FALSE, !.srv[c].expect = IF @ = <<>> THEN @ ELSE Tail(@)],
                 (IF ~s.up THEN {<<"C12", "Alternation">>} ELSE {})
                 \cup (IF s.expect = <<>> THEN {<<"C12", "Alternation">>} ELSE {})
                 \cup (IF s.expect # <<>> /\ Head(s.expect) # e.res.reason THEN {<<"C12", "Reason">>} ELSE {}))

(***************************************************************************)
(* dispatcher                                                              *)
(***************************************************************************)
Dispatch(o, e) ==
    CASE e.ev = "send"      -> ObsSend(o, e)
      [] e.ev = "recv"      -> ObsRecv(o, e)
      [] e.ev = "deliver"   -> ObsDeliver(o, e)
      [] e.ev = "flush"     -> ObsFlush(o, e)
      [] e.ev = "update"    -> ObsUpdate(o, e)
      [] e.ev = "heal"      -> ObsHeal(o, e)
      [] e.ev = "round_end" -> ObsRoundEnd(o, e)
      [] e.ev = "api"       -> ObsApi(o, e)
      [] e.ev = "get_event" -> ObsGetEvent(o, e)
      [] e.ev = "bcast"     -> ObsBcast(o, e)
      [] e.ev = "rt"        -> FlagIf(o, ~e.ok, <<"C16", "RoundTrip">>)
      [] e.ev = "re"        -> FlagIf(o, e.decodable /\ ~e.ok, <<"C16", "Reencode">>)
      [] OTHER              -> o

\* diagnostics attached to a flagged event (not part of any verdict)
Detail(o, e) ==
    IF "side" \notin DOMAIN e \/ "st1" \notin DOMAIN e THEN <<>>
    ELSE [k \in {x \in DOMAIN o.str : x[1] = e.conn} |->
            LET s == o.str[k] IN
            [kind |-> s.kind, needR |-> NeedR(o, s), needS |-> NeedS(o, s, e.st1), cB |-> s.cB, gB |-> s.gB, openB |-> s.openB,
             nacc |-> Len(s.acc), ncompl |-> Cardinality(s.compl), uopen |-> DOMAIN s.uOpen]]

ObsStep(o, e) ==
    IF e.ev = "reset" THEN ObsReset(e.cfg) ELSE
    LET o0 == [o EXCEPT !.flags = {}]
        o1 == Dispatch(o0, e)
        o2 == IF e.panic THEN Flag(o1, {<<p, "NoPanic">> : p \in Props(o1)}) ELSE o1
        \* delivery guarantees are not claimed for a connection that receives forged packets (no authentication at this layer)
        victims == IF "victims" \in DOMAIN o2.cfg THEN Range(o2.cfg.victims) ELSE {}
        isVictim == "conn" \in DOMAIN e /\ e.conn \in victims
    IN [o2 EXCEPT !.flags = {f \in @ : f[1] \in Props(o2) /\ ~(isVictim /\ f[1] \in {"C01", "C02", "C03", "C08", "C09", "C14", "C15"})}]

=============================================================================
