\* netcode quick 7 (a token showing up at another address, focused): the victim, an attacker with a token of its own, a copy of the
\* victim's token held at the attacker's address, and a second token for the victim's id; honest exchanges (client update, its
\* datagram to the server, the reply back) in any interleaving of 4 steps: a token the server acted on at one address is not
\* honoured at another, whatever half-open session that other address has.
SPECIFICATION Spec
CONSTANTS
  Tokens <- Toks_cross
  Clients <- Clis_thief
  MaxClients0 = 2
  ServerAddrs = 1
  TokenSingleUse = TRUE
  TokenTable = 2048
  MaxSteps = 4
  Addrs = {1, 2, 3}
  Dts = {250}
  CraftToks = {}
  MaxPresent = 1
  Calls = {"exchange"}
  PumpPay = FALSE
  HealRounds = 0
  HealDt = 250
  Bound = 0
  PropsOn <- P_HS
  Export = TRUE
  ExportAll = FALSE
  ExportOneIn = 1
INVARIANT NoFlag
INVARIANT ExportInv
VIEW View
CHECK_DEADLOCK FALSE
