\* netcode: a valid token next to a foreign-key, a foreign-protocol, a wrong-host and an expired token (5 steps):
\* none of the invalid ones is ever answered or connected, the valid one is not disturbed.
SPECIFICATION Spec
CONSTANTS
  Tokens <- Toks_bad
  Clients <- Clis_bad
  MaxClients0 = 2
  ServerAddrs = 1
  TokenSingleUse = TRUE
  TokenTable = 2048
  MaxSteps = 5
  Addrs = {1, 2, 3}
  Dts = {250}
  CraftToks = {"TF", "TQ"}
  MaxPresent = 2
  Calls = {"exchange", "client", "craft", "deliver"}
  PumpPay = FALSE
  HealRounds = 0
  HealDt = 250
  Bound = 0
  PropsOn <- P_HS
  Export = TRUE
  ExportAll = FALSE
  ExportOneIn = 10
INVARIANT NoFlag
INVARIANT ExportInv
VIEW View
CHECK_DEADLOCK FALSE
