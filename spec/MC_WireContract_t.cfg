\* every canonical range list over 0..13 with at most 4 ranges (cap 4) x every arriving sequence number 0..13
SPECIFICATION CSpec
CONSTANTS
  ChSC <- NoCh
  ChCS <- NoCh
  Budget = 0
  SeqBase = 0
  MidBase = 0
  ACKCAP <- Cap4
  Universe = {0}
  MaxArrivals = 0
  Export = FALSE
  N = 13
INVARIANT AddContract
INVARIANT AckedContract
INVARIANT CodecContract
CHECK_DEADLOCK FALSE
