----------------------------- MODULE ReplayWindow -----------------------------
(***************************************************************************)
(* The replay window of renetcode (renetcode/src/replay_protection.rs),    *)
(* transcribed: a ring of N = 256 slots holding the last sequence number   *)
(* received with each residue, and the most recent sequence number.        *)
(*                                                                         *)
(*   already_received(s):  s + N <= recent                                 *)
(*                         \/ (buf[s % N] # EMPTY /\ buf[s % N] >= s)      *)
(*   advance_sequence(s):  recent := max(recent, s);  buf[s % N] := s      *)
(*                                                                         *)
(* A packet is processed only if ~already_received(s), and then            *)
(* advance_sequence(s) is called (packet.rs, Packet::decode).              *)
(*                                                                         *)
(* THEOREM (machine-checked with TLAPS, for ALL sequence numbers and ALL   *)
(* arrival orders, not a bounded exploration): every sequence number that  *)
(* was accepted once stays "already received" for ever, hence no sequence  *)
(* number is accepted twice (C04: each generated packet surfaces at most   *)
(* once).  u64 saturation is irrelevant over the naturals; the server's    *)
(* global sequence starts at 2^63 and cannot reach 2^64 in practice.       *)
(*                                                                         *)
(* Netcode.tla uses the set form of the same window (Already / Advance);   *)
(* the strict pass binds both to the code on window-jump histories.        *)
(***************************************************************************)
EXTENDS Integers, TLAPS

N == 256
Empty == 0 - 1

VARIABLES recent, buf, acc
vars == <<recent, buf, acc>>

Already(s) == \/ s + N <= recent
              \/ (buf[s % N] # Empty /\ buf[s % N] >= s)

Init == /\ recent = 0
        /\ buf = [i \in 0..(N - 1) |-> Empty]
        /\ acc = {}

Accept(s) == /\ ~Already(s)
             /\ recent' = IF s > recent THEN s ELSE recent
             /\ buf' = [buf EXCEPT ![s % N] = s]
             /\ acc' = acc \cup {s}

Reject(s) == Already(s) /\ UNCHANGED vars

Next == \E s \in Nat : Accept(s) \/ Reject(s)

Spec == Init /\ [][Next]_vars

TypeOK == /\ recent \in Nat
          /\ buf \in [0..(N - 1) -> Nat \cup {Empty}]
          /\ acc \subseteq Nat

\* every accepted sequence number is (still) reported as already received
Sticky == \A h \in acc : Already(h)

Inv == TypeOK /\ Sticky

\* a sequence number that was accepted before is never accepted again
NeverTwice == \A s \in acc : ~ENABLED Accept(s)

LEMMA ModRange == \A s \in Nat : s % N \in 0..(N - 1)
  BY DEF N

THEOREM InitInv == Init => Inv
  BY DEF Init, Inv, TypeOK, Sticky, N, Empty

THEOREM NextInv == Inv /\ [Next]_vars => Inv'
<1> SUFFICES ASSUME Inv, [Next]_vars PROVE Inv'
  OBVIOUS
<1>1. CASE UNCHANGED vars
  BY <1>1 DEF Inv, TypeOK, Sticky, Already, vars
<1>2. ASSUME NEW s \in Nat, Reject(s) PROVE Inv'
  BY <1>2 DEF Reject, Inv, TypeOK, Sticky, Already, vars
<1>3. ASSUME NEW s \in Nat, Accept(s) PROVE Inv'
  <2>0. s % N \in 0..(N - 1)
    BY ModRange
  <2>1. TypeOK'
    BY <1>3, <2>0 DEF Accept, Inv, TypeOK, N, Empty
  <2>2. Sticky'
    <3> SUFFICES ASSUME NEW h \in acc' PROVE Already(h)'
      BY DEF Sticky
    <3>0. h \in Nat /\ h % N \in 0..(N - 1)
      BY <1>3, ModRange DEF Accept, Inv, TypeOK
    <3>1. recent' >= recent /\ recent' >= s /\ recent' \in Nat
      BY <1>3 DEF Accept, Inv, TypeOK
    <3>2. CASE h = s
      <4>1. buf'[s % N] = s
        BY <1>3, <2>0 DEF Accept, Inv, TypeOK
      <4> QED
        BY <3>2, <4>1 DEF Already, Empty
    <3>3. CASE h # s
      <4>0. h \in acc /\ Already(h)
        BY <3>3, <1>3 DEF Accept, Inv, Sticky
      <4>1. CASE h + N <= recent
        BY <4>1, <3>1, <3>0 DEF Already, N, Inv, TypeOK
      <4>2. CASE buf[h % N] # Empty /\ buf[h % N] >= h
        <5>1. CASE h % N # s % N
          <6>1. buf'[h % N] = buf[h % N]
            BY <1>3, <5>1, <3>0, <2>0 DEF Accept, Inv, TypeOK
          <6> QED
            BY <6>1, <4>2 DEF Already
        <5>2. CASE h % N = s % N
          \* the slot now holds s; s was not already received, so it is larger than what the slot held, which was >= h
          <6>1. buf[s % N] # Empty /\ buf[s % N] >= h
            BY <5>2, <4>2
          <6>2. ~(buf[s % N] >= s)
            BY <1>3, <6>1 DEF Accept, Already
          <6>3. buf[s % N] \in Nat
            BY <6>1, <2>0 DEF Inv, TypeOK, Empty
          <6>4. s >= h
            BY <6>1, <6>2, <6>3, <3>0
          <6>5. buf'[h % N] = s
            BY <1>3, <5>2, <2>0 DEF Accept, Inv, TypeOK
          <6> QED
            BY <6>4, <6>5, <3>0 DEF Already, Empty
        <5> QED
          BY <5>1, <5>2
      <4> QED
        BY <4>0, <4>1, <4>2 DEF Already
    <3> QED
      BY <3>2, <3>3
  <2> QED
    BY <2>1, <2>2 DEF Inv
<1> QED
  BY <1>1, <1>2, <1>3 DEF Next

THEOREM Safety == Spec => []Inv
  BY InitInv, NextInv, PTL DEF Spec

\* Inv => NeverTwice is immediate: Accept(s) requires ~Already(s), Sticky gives Already(s) for s \in acc.
=============================================================================
