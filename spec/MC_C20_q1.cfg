\* C20 quick: two clients; client steps and server steps with per-direction pass / drop decisions of the relay and up to two
\* application initiated disconnects (server / client / client transport) in any interleaving of 13 steps.
SPECIFICATION Spec
CONSTANTS
  Ids = {1, 2}
  MaxSteps = 13
  MaxDisc = 2
  Export = TRUE
  ExportOneIn = 40
  StepDt = 250
  TimeoutS = 5
  TimeoutSteps = 21
INVARIANT LockStep
INVARIANT EventsOnce
INVARIANT OnlyAsked
INVARIANT NoEarlyTimeout
INVARIANT ExportInv
VIEW View
CHECK_DEADLOCK FALSE
