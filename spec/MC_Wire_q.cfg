\* all arrival orders (with repeats) of up to 7 sequence numbers out of 0..9, pending-range cap 3
SPECIFICATION Spec
CONSTANTS
  ChSC <- NoCh
  ChCS <- NoCh
  Budget = 0
  SeqBase = 0
  MidBase = 0
  ACKCAP <- Cap3
  Universe = {0, 1, 2, 3, 4, 5, 6, 7, 8, 9}
  MaxArrivals = 7
  Export = TRUE
INVARIANT ListOK
INVARIANT CodecOK
INVARIANT ExportInv
VIEW View
CHECK_DEADLOCK FALSE
