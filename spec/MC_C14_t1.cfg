\* C14 thorough: budget 2400, 3600-byte reliable message
SPECIFICATION Spec
CONSTANTS
  ChSC <- Ch_RO
  ChCS <- Ch_RO
  Budget = 2400
  Workload <- WL_3600
  MaxFlushS = 1
  MaxFlushC = 3
  MaxTicks = 2
  Dts = {300}
  MaxDeliver = 1
  HealDt = 300
  HealRounds = 3
  Bound <- NoBound
  HealLose = {TRUE, FALSE}
  Reorder = TRUE
  RecvAnywhere = FALSE
  PropsOn <- P_C14
  MaxHostile = 0
  HostileSet = "none"
  ExportAll = FALSE
  Export = TRUE
INVARIANT NoFlag
INVARIANT ExportInv
VIEW View
CHECK_DEADLOCK FALSE
