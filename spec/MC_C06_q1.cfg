\* C06 quick: one hostile packet (reduced boundary domain) injected at any point of a session with an unreliable and a
\* reliable sliced message in flight (fresh, mid-reassembly, buffered, after drain); then the session continues.
SPECIFICATION Spec
CONSTANTS
  ChSC <- Ch_U_RO
  ChCS <- Ch_U_RO
  SeqBase = 0
  MidBase = 0
  Budget = 60000
  Workload <- WL_U_RO_sliced
  MaxFlushS = 0
  MaxFlushC = 1
  MaxTicks = 0
  Dts = {300}
  MaxDeliver = 1
  HealDt = 300
  HealRounds = 1
  Bound <- NoBound
  HealLose = {FALSE}
  Reorder = FALSE
  RecvAnywhere = FALSE
  PropsOn <- P_C06
  MaxHostile = 1
  HostileSet = "small"
  ExportAll = FALSE
  Export = TRUE
INVARIANT NoFlag
INVARIANT ExportInv
VIEW View
CHECK_DEADLOCK FALSE
