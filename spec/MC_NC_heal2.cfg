\* C18 bounded liveness on the model, two honest clients and two slots, 100 ms ticks (the 250 ms send rate gates every third
\* update): fault phase of up to 7 steps (loss, delay, duplication of any handshake datagram of either client), then the
\* network heals and both clients must be connected on both sides within Bound = 2 (2 ceil(250/100) + 2) + 4 = 20 rounds.
SPECIFICATION Spec
CONSTANTS
  Tokens <- Toks_two
  Clients <- Clis_two
  MaxClients0 = 2
  ServerAddrs = 1
  TokenSingleUse = TRUE
  TokenTable = 2048
  MaxSteps = 7
  Addrs = {1, 2}
  Dts = {100}
  CraftToks = {}
  MaxPresent = 2
  Calls = {"client", "time", "deliver"}
  PumpPay = FALSE
  HealRounds = 20
  HealDt = 100
  Bound = 20
  PropsOn <- P_LIVE
  Export = TRUE
  ExportAll = FALSE
  ExportOneIn = 40
INVARIANT NoFlag
INVARIANT ExportInv
VIEW View
CHECK_DEADLOCK FALSE
