------------------------------- MODULE MC_Conn -------------------------------
(***************************************************************************)
(* Closed model of one connection: Renet.tla + an application with a fixed *)
(* workload + a network that may deliver any emitted packet any number of  *)
(* times in any order (loss = never delivered) + the observer RenetObs.    *)
(* After Heal only good rounds happen (bounded liveness as safety).        *)
(***************************************************************************)
EXTENDS Renet, Json

CONSTANTS Workload,    \* sequence of [side, ch, cid, len]: messages submitted, in this order
          MaxFlushS, MaxFlushC,  \* flushes per side before Heal
          MaxTicks,    \* joint updates before Heal
          Dts,         \* tick lengths
          MaxDeliver,  \* how often one packet may be delivered before Heal
          HealDt, HealRounds, Bound,
          HealLose,    \* subset of BOOLEAN: may the packets still in flight at Heal be lost / delivered late
          Reorder,     \* may the network reorder (FALSE: only losses and duplicates of the newest packet)
          RecvAnywhere, \* application receives between any two steps (otherwise only in the good rounds)
          PropsOn,     \* sequence of property ids the observer evaluates
          MaxHostile,  \* hostile packets injected per behaviour (0: none)
          HostileSet,  \* "none" | "small" | "full": which abstract hostile packets
          ExportAll,   \* export a path for every state (TRUE) or only for the finished behaviours (FALSE, large configurations)
          Export       \* keep a history of steps and predicted events (simulation / tiny scopes only)

VARIABLES w, obs, ctl, hist
vars == <<w, obs, ctl, hist>>

\* ---- named configurations (bound in the .cfg files with <-) ----
Ch(id, kind, max, resend) == [id |-> id, kind |-> kind, max |-> max, resend |-> resend]
Ch_RO == <<Ch(0, "RO", 100000, 300)>>
Ch_RU == <<Ch(0, "RU", 100000, 300)>>
Ch_U  == <<Ch(0, "U", 100000, 300)>>
Ch_Mixed == <<Ch(0, "U", 100000, 300), Ch(1, "RU", 100000, 300), Ch(2, "RO", 100000, 300)>>
M(side, ch, cid, len) == [side |-> side, ch |-> ch, cid |-> cid, len |-> len]
WL_RO_small_sliced == <<M("C", 0, 1, 5), M("C", 0, 2, 1201)>>
WL_RO_3slices == <<M("C", 0, 1, 2401)>>
WL_RO_two_small == <<M("C", 0, 1, 5), M("C", 0, 2, 7)>>
Ch_RO100 == <<Ch(0, "RO", 100000, 100)>>
Ch_RO_RU == <<Ch(0, "RO", 100000, 300), Ch(1, "RU", 100000, 300)>>
Ch_U_RO == <<Ch(0, "U", 100000, 300), Ch(1, "RO", 100000, 300)>>
Ch_RO_U == <<Ch(0, "RO", 100000, 300), Ch(1, "U", 100000, 300)>>
WL_3x700 == <<M("C", 0, 1, 700), M("C", 0, 2, 700), M("C", 0, 3, 700)>>
WL_small_3slices == <<M("C", 0, 1, 5), M("C", 0, 2, 2401)>>
WL_sliced_small == <<M("C", 0, 1, 1201), M("C", 0, 2, 5)>>
WL_one_small == <<M("C", 0, 1, 5)>>
WL_2400 == <<M("C", 0, 1, 2400)>>
WL_3600 == <<M("C", 0, 1, 3600)>>
WL_U_3x100 == <<M("C", 0, 1, 100), M("C", 0, 2, 100), M("C", 0, 3, 100)>>
WL_U_150_50 == <<M("C", 0, 1, 150), M("C", 0, 2, 50)>>
WL_U_sliced_small == <<M("C", 0, 1, 1201), M("C", 0, 2, 7)>>
WL_U_2sliced == <<M("C", 0, 1, 1201), M("C", 0, 2, 1300)>>
WL_mixed_U_RO == <<M("C", 0, 1, 1201), M("C", 1, 2, 5), M("C", 0, 3, 9)>>
WL_bidir == <<M("C", 0, 1, 5), M("S", 0, 2, 7)>>
NoBound == 0 - 1
P_C01 == <<"C01">>
P_C03 == <<"C03">>
P_C08 == <<"C08">>
P_C09 == <<"C09">>
P_C14 == <<"C14">>
P_C06 == <<"C06">>
P_C13 == <<"C13">>
WL_pack == <<M("C", 0, 1, 1197), M("C", 0, 2, 1198), M("C", 0, 3, 90), M("C", 0, 4, 1200)>>
WL_pack_U == <<M("C", 0, 1, 1198), M("C", 0, 2, 1199), M("C", 0, 3, 90), M("C", 0, 4, 1200)>>
WL_U_RO_sliced == <<M("C", 0, 1, 1201), M("C", 1, 2, 2401)>>
\* a receive budget that holds everything the sender may have outstanding (12 bytes) and not one byte more: three small
\* messages in separate packets, the first one lost or late, duplicates of the buffered ones (C09: duplicates cost no memory)
Ch_RO12 == <<Ch(0, "RO", 12, 300)>>
Ch_RU12 == <<Ch(0, "RU", 12, 300)>>
WL_2_5_5 == <<M("C", 0, 1, 2), M("C", 0, 2, 5), M("C", 0, 3, 5)>>
\* a reliable channel that uses the tick's budget to the last byte in front of an unreliable one with a queued message
WL_2400_then_U == <<M("C", 0, 1, 2400), M("C", 1, 2, 50)>>
WL_1200_then_U == <<M("C", 0, 1, 1200), M("C", 1, 2, 50), M("C", 1, 3, 60)>>
P_C15 == <<"C15">>
P_C02 == <<"C02">>
P_REL == <<"C01", "C02", "C03", "C08">>

Cfg == [conns |-> <<1>>, sc |-> ChSC, cs |-> ChCS, budget |-> Budget, seqbase |-> SeqBase, midbase |-> MidBase, props |-> PropsOn]

Init == /\ w = NewWorld
        /\ obs = ObsReset(Cfg)
        /\ ctl = [wl |-> 1, nfl |-> [s \in {"S", "C"} |-> 0], nt |-> 0, nh |-> 0, healed |-> FALSE, rounds |-> 0]
        /\ hist = <<>>

Record(step, evs) == hist' = IF Export THEN Append(hist, step) ELSE hist

Apply(r, step) == /\ w' = r.w
                  /\ obs' = ObsFold(obs, r.evs, 1)
                  /\ Record(step, r.evs)

ASend == /\ ~ctl.healed /\ ctl.wl <= Len(Workload)
         /\ LET m == Workload[ctl.wl] IN
            Apply(One(DoSend(w, m.side, m.ch, m.cid, m.len)),
                  [a |-> "send", conn |-> 1, side |-> m.side, ch |-> m.ch, tag |-> m.cid, len |-> m.len])
         /\ ctl' = [ctl EXCEPT !.wl = @ + 1]

ARecv(side, i) ==
         /\ ~ctl.healed /\ RecvAnywhere
         /\ LET ch == RecvCh(side)[i].id IN
            Apply(One(DoRecv(w, side, ch)), [a |-> "recv", conn |-> 1, side |-> side, ch |-> ch])
         /\ UNCHANGED ctl

ATick(dt) == /\ ~ctl.healed /\ ctl.nt < MaxTicks
             /\ LET r1 == One(DoUpdate(w, "S", dt))
                    r2 == Then(r1, LAMBDA x : One(DoUpdate(x, "C", dt)))
                IN /\ w' = r2.w
                   /\ obs' = ObsFold(obs, r2.evs, 1)
                   /\ hist' = IF Export THEN hist \o << [a |-> "update", conn |-> 0, side |-> "S", dt |-> dt],
                                                        [a |-> "update", conn |-> 1, side |-> "C", dt |-> dt] >>
                              ELSE hist
             /\ ctl' = [ctl EXCEPT !.nt = @ + 1]

MaxFlush(side) == IF side = "S" THEN MaxFlushS ELSE MaxFlushC
MaxFl == IF MaxFlushS > MaxFlushC THEN MaxFlushS ELSE MaxFlushC

AFlush(side) == /\ ~ctl.healed /\ ctl.nfl[side] < MaxFlush(side)
                /\ Apply(One(DoFlush(w, side)), [a |-> "flush", conn |-> 1, side |-> side])
                /\ ctl' = [ctl EXCEPT !.nfl[side] = @ + 1]

ADeliver(to, fl, ix) ==
    /\ ~ctl.healed
    /\ fl \in 1..Len(w.net[Other(to)]) /\ ix \in 1..Len(w.net[Other(to)][fl])
    /\ Get(w.dl, <<Other(to), fl, ix>>, 0) < MaxDeliver
    /\ (Reorder \/ \A k \in DOMAIN w.dl : k[1] = Other(to) => (k[2] < fl \/ (k[2] = fl /\ k[3] <= ix)))
    /\ Apply(One(DoDeliver(w, to, fl, ix)), [a |-> "deliver", conn |-> 1, to |-> to, fl |-> fl, ix |-> ix])
    /\ UNCHANGED ctl

(***************************************************************************)
(* Hostile packets (C06): abstract shapes around every boundary the        *)
(* receiving code looks at -- channel (right kind / wrong kind / absent),  *)
(* message id (below, at, above the cursor, an open reassembly, far),      *)
(* announced slice count vs the one first announced, slice index (inside,  *)
(* last, one past, far), payload length (0, 1, SLICE-1, SLICE, SLICE+1).   *)
(***************************************************************************)
HSeq == 900
HChans == {0, 1, 7}
HMids == {0, 1, 2, 50}
HNs == IF HostileSet = "full" THEN {1, 2, 3, 4, 1000000} ELSE {1, 3, 4}
HIdx == IF HostileSet = "full" THEN {0, 1, 2, 3, 4, 1000000} ELSE {0, 2, 3, 1000000}
HLens == IF HostileSet = "full" THEN {0, 1, 1199, 1200, 1201} ELSE {1, 1200}
HostileSlices == { MkSlice(x[1], HSeq, x[2], x[3], x[4], x[5], x[6], 0 - 1) :
                     x \in {"RS", "US"} \X HChans \X HMids \X HIdx \X HNs \X HLens }
HostileSmall == { MkSmall("SR", HSeq, c, <<[mid |-> m, cid |-> 0 - 1, len |-> l]>>) : c \in HChans, m \in HMids, l \in {0, 1200} }
                \cup { MkSmall("SU", HSeq, c, <<[mid |-> 0 - 1, cid |-> 0 - 1, len |-> l]>>) : c \in HChans, l \in {0, 1200} }
                \cup { MkSmall("SR", HSeq, c, <<>>) : c \in HChans }
HostileAcks == { MkAck(HSeq, <<r>>) : r \in {<<0, 1>>, <<0, 3>>, <<2, 1000>>, <<5, 6>>} }
HostileBad == { [seq |-> 0, kind |-> "BAD", ch |-> 0 - 1, bytes |-> 5, msgs |-> <<>>, sl |-> NoSl, ranges |-> <<>>, pay |-> 0] }
\* the crate's decoder rejects a reliable slice with an empty or oversized payload, and any slice count above 10^6
Decodable(p) == ~(p.kind = "RS" /\ (p.sl.len = 0 \/ p.sl.len > SLICE))
HostileDomain == IF HostileSet = "none" THEN {}
                 ELSE {p \in HostileSlices : Decodable(p)} \cup HostileSmall \cup HostileAcks \cup HostileBad

AHostile(to, p) ==
    /\ ~ctl.healed /\ ctl.nh < MaxHostile
    /\ Apply(One(DoHostile(w, to, p)), [a |-> "hostile", conn |-> 1, to |-> to, p |-> p])
    /\ ctl' = [ctl EXCEPT !.nh = @ + 1]

AHeal == /\ ~ctl.healed
         /\ ctl.wl > Len(Workload)
         /\ \A s \in {"S", "C"} : ctl.nfl[s] = MaxFlush(s)
         /\ \E lose \in HealLose :
              /\ w' = IF lose THEN DoLose(w) ELSE w
              /\ Record([a |-> "heal", conn |-> 1, bound |-> Bound, lose |-> lose], <<>>)
         /\ obs' = ObsStep(obs, [ev |-> "heal", conn |-> 1, bound |-> Bound, panic |-> FALSE])
         /\ ctl' = [ctl EXCEPT !.healed = TRUE]

ARound == /\ ctl.healed /\ ctl.rounds < HealRounds
          /\ Apply(DoRound(w, HealDt), [a |-> "round", conn |-> 1, dt |-> HealDt, n |-> 1])
          /\ ctl' = [ctl EXCEPT !.rounds = @ + 1]

MaxPk == 8
Next == \/ ASend
        \/ \E side \in {"S", "C"} : \E i \in 1..Len(RecvCh(side)) : ARecv(side, i)
        \/ \E dt \in Dts : ATick(dt)
        \/ \E side \in {"S", "C"} : AFlush(side)
        \/ \E to \in {"S", "C"} : \E fl \in 1..MaxFl : \E ix \in 1..MaxPk : ADeliver(to, fl, ix)
        \/ \E p \in HostileDomain : AHostile("S", p)
        \/ AHeal
        \/ ARound

Spec == Init /\ [][Next]_vars

\* every clause the observer evaluates holds in every reachable state
NoFlag == obs.flags = {}

Done == ctl.healed /\ ctl.rounds = HealRounds

\* Schedule export.  hist is carried in the state but is not part of its identity (VIEW): TLC visits every
\* distinct (w, obs, ctl) once and hist is one real path that reaches it.  Printing it for every state (ExportAll)
\* gives a set of paths that covers every reachable state of the model; bin/check keeps the maximal ones and
\* replays them against the real code.  Large configurations print the finished behaviours only (one per
\* distinct final state).
ExportInv == (Export /\ (ExportAll \/ Done)) => PrintT(<<"PATH", ToJson([done |-> Done, steps |-> hist])>>)
ExportCfg == PrintT(<<"CFG", ToJson(Cfg)>>)
ASSUME ExportCfg

View == <<w, obs, ctl>>
=============================================================================
