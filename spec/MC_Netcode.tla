------------------------------ MODULE MC_Netcode ------------------------------
(***************************************************************************)
(* Closed model of the netcode layer: one server, a few clients holding    *)
(* tokens, a network that may deliver any emitted datagram any number of   *)
(* times from any address, and an attacker that owns some of the tokens    *)
(* and may echo challenges across its sessions.  The observer NetcodeObs   *)
(* evaluates the clauses of C04 C05 C10 C17 C19 in every state.            *)
(***************************************************************************)
EXTENDS Netcode, Json

CONSTANTS MaxSteps, Addrs, Dts, CraftToks, MaxPresent, Calls, PropsOn, Export, ExportAll, ExportOneIn,
          PumpPay,                    \* does the server application send a payload to every id in every good round
          HealRounds, HealDt, Bound   \* bounded liveness: after the fault phase the network heals and HealRounds good rounds follow

VARIABLES w, obs, ctl, hist
vars == <<w, obs, ctl, hist>>

Cfg == [max_clients |-> MaxClients0, server_addrs |-> ServerAddrs, start_ms |-> 0, props |-> PropsOn, secure |-> Secure0]

RECURSIVE SortedNames(_)
SortedNames(S) == IF S = {} THEN <<>> ELSE LET m == CHOOSE x \in S : TRUE IN <<m>> \o SortedNames(S \ {m})
TokNames == SortedNames(DOMAIN Tokens)
CliNames == SortedNames(DOMAIN Clients)

TokenEvent(t) == LET T == Tokens[t] IN
    [ev |-> "token", t |-> t, id |-> T.id, ud |-> T.ud, hosts |-> T.hostseq, create |-> T.create, expire |-> T.expire, timeout |-> T.timeout,
     sealed |-> T.sealed, proto |-> T.proto, tamper |-> T.tamper, ok |-> T.ok, panic |-> FALSE]
ClientEvent(c) == [ev |-> "client", c |-> c, t |-> Clients[c].tok, addr |-> Clients[c].addr, res |-> "ok",
                   cs1 |-> CSnap(NewWorld, c), panic |-> FALSE]

RECURSIVE FoldObs(_, _, _)
FoldObs(o, evs, i) == IF i > Len(evs) THEN o ELSE LET o1 == ObsStep(o, evs[i]) IN IF o1.flags # {} THEN o1 ELSE FoldObs(o1, evs, i + 1)

SetupEvents == [i \in 1..Len(TokNames) |-> TokenEvent(TokNames[i])] \o [i \in 1..Len(CliNames) |-> ClientEvent(CliNames[i])]
SetupSteps == [i \in 1..Len(TokNames) |->
                  LET T == Tokens[TokNames[i]] IN
                  [a |-> "token", t |-> TokNames[i], id |-> T.id, ud |-> T.ud, hosts |-> T.hostseq, create_ms |-> T.create * 1000,
                   expire_s |-> T.expire - T.create, timeout_s |-> T.timeout, key |-> T.sealed, proto |-> T.proto]]
              \o [i \in 1..Len(CliNames) |-> [a |-> "client", c |-> CliNames[i], t |-> Clients[CliNames[i]].tok, addr |-> Clients[CliNames[i]].addr, now_ms |-> 0]]

Init == /\ w = NewWorld
        /\ obs = FoldObs(ObsReset(Cfg), SetupEvents, 1)
        /\ ctl = [steps |-> 0, tag |-> 1, healed |-> FALSE, rounds |-> 0, rel |-> <<>>, tried |-> {}]
        /\ hist = IF Export THEN SetupSteps ELSE <<>>

\* When no action refers to individual emitted datagrams (no "deliver"), behaviours that differ only in the order of
\* independent exchanges reach states that differ only in emission numbers: the VIEW identifies them (see View below)
Coarse == "deliver" \notin Calls
Can == ctl.steps < MaxSteps /\ ~ctl.healed
\* ctl.rel: the slots released so far, in order.  It is part of the state (and of every VIEW) so that behaviours that free the
\* same slots in a different ORDER are explored and exported as different behaviours: a slip that confuses slot indices
\* (seeded change C11/b) only shows for one of the orders, and the exported path of a state is only one of the ways to reach it.
Released(w0, w1) == SortedIds({i \in 1..Len(w0.slots) : w0.slots[i].used /\ (i > Len(w1.slots) \/ ~w1.slots[i].used)})
Stepped(w1) == [ctl EXCEPT !.steps = @ + 1, !.rel = @ \o Released(w, w1)]
Apply(r, step) == /\ w' = r.w
                  /\ obs' = ObsStep(obs, r.ev)
                  /\ hist' = IF Export THEN Append(hist, step) ELSE hist
                  /\ ctl' = Stepped(r.w)
\* emitted datagrams are referred to by name ("e<k>") so that the schedule stays meaningful if the code emits differently
EName(k) == "e" \o ToString(k)
NextName == EName(Len(w.net) + 1)

ACUpdate(c, dt) == Can /\ "client" \in Calls /\ Apply(DoCUpdate(w, c, dt), [a |-> "cupdate", c |-> c, dt |-> dt, as |-> NextName])
ASUpdate(dt) == Can /\ "time" \in Calls /\ Apply(DoSUpdate(w, dt), [a |-> "supdate", dt |-> dt, as |-> NextName])
ASDeliver(k, from) ==
    /\ Can /\ "deliver" \in Calls /\ k \in 1..Len(w.net) /\ w.net[k].org # "S"
    /\ Get(w.pres, k, 0) < MaxPresent
    /\ (from = OriginAddr(w, w.net[k]) \/ "readdress" \in Calls)
    /\ Apply(DoSDeliver(w, k, from), [a |-> "sdeliver", d |-> EName(k), from |-> from, as |-> NextName])
ACDeliver(c, k) ==
    /\ Can /\ "deliver" \in Calls /\ k \in 1..Len(w.net) /\ w.net[k].org = "S"
    /\ Get(w.pres, k, 0) < MaxPresent
    /\ (w.net[k].to = Clients[c].addr \/ "readdress" \in Calls)
    /\ Apply(DoCDeliver(w, c, k), [a |-> "cdeliver", c |-> c, d |-> EName(k)])
ACraft(tk, k, from) ==
    /\ Can /\ "craft" \in Calls /\ k \in 1..Len(w.net) /\ w.net[k].kind \in {"Challenge", "Response"}
    \* which forgeries were tried is part of the state (ctl.tried): a forgery the server ignores changes nothing else, and without it
    \* all ignored forgeries would collapse into one state with ONE exported representative
    /\ LET r == DoSCraftResponse(w, tk, k, from, 7) IN
       /\ w' = r.w
       /\ obs' = ObsStep(obs, r.ev)
       /\ hist' = IF Export THEN Append(hist, [a |-> "scraft", kind |-> "Response", tok |-> tk, seq |-> 7, chal_from |-> EName(k), from |-> from]) ELSE hist
       /\ ctl' = [Stepped(r.w) EXCEPT !.tried = IF Coarse THEN @ \cup {<<tk, w.net[k].cid, w.net[k].cud, from>>} ELSE @]
\* one honest exchange (harness macro `exchange`): client update, its datagram to the server, the reply back to the client
\* `from` is the address the server sees: the client's own, or ("hijack" in Calls) any other one -- the holder of a token moving,
\* or somebody who holds a copy of the whole token, showing up elsewhere
AExchange(c, dt, from) ==
    /\ Can /\ "exchange" \in Calls
    /\ (from = Clients[c].addr \/ "hijack" \in Calls)
    /\ LET r1 == DoCUpdate(w, c, dt)
           sent == r1.ev.out.kind # "None"
           k == Len(r1.w.net)
           r2 == IF sent THEN DoSDeliver(r1.w, k, from) ELSE [w |-> r1.w, ev |-> r1.ev]
           replied == sent /\ r2.ev.reply.kind # "None"
           r3 == IF replied THEN DoCDeliver(r2.w, c, Len(r2.w.net)) ELSE [w |-> r2.w, ev |-> r2.ev]
           evs == <<r1.ev>> \o (IF sent THEN <<r2.ev>> ELSE <<>>) \o (IF replied THEN <<r3.ev>> ELSE <<>>)
       IN /\ w' = r3.w
          /\ obs' = FoldObs(obs, evs, 1)
    /\ hist' = IF Export THEN Append(hist, IF from = Clients[c].addr THEN [a |-> "exchange", c |-> c, dt |-> dt, as |-> NextName]
                                           ELSE [a |-> "exchange", c |-> c, dt |-> dt, as |-> NextName, from |-> from]) ELSE hist
    \* an exchange from a foreign address that the server ignores changes nothing else: remember that it was tried (see ACraft)
    /\ ctl' = [Stepped(w') EXCEPT !.tried = IF Coarse /\ from # Clients[c].addr THEN @ \cup {<<c, w.cl[c].state, from>>} ELSE @]
ACPayload(c) == /\ Can /\ "payload" \in Calls /\ ctl.tag <= 3
                /\ w' = DoCPayload(w, c, 100 + ctl.tag, 20).w /\ obs' = ObsStep(obs, DoCPayload(w, c, 100 + ctl.tag, 20).ev)
                /\ hist' = IF Export THEN Append(hist, [a |-> "cpayload", c |-> c, tag |-> 100 + ctl.tag, len |-> 20, as |-> NextName]) ELSE hist
                /\ ctl' = [ctl EXCEPT !.steps = @ + 1, !.tag = @ + 1]
ASPayload(id) == /\ Can /\ "payload" \in Calls /\ ctl.tag <= 3
                 /\ w' = DoSPayload(w, id, 100 + ctl.tag, 20).w /\ obs' = ObsStep(obs, DoSPayload(w, id, 100 + ctl.tag, 20).ev)
                 /\ hist' = IF Export THEN Append(hist, [a |-> "spayload", id |-> id, tag |-> 100 + ctl.tag, len |-> 20, as |-> NextName]) ELSE hist
                 /\ ctl' = [ctl EXCEPT !.steps = @ + 1, !.tag = @ + 1]
ASetMax(n) == Can /\ "setmax" \in Calls /\ n # w.maxc /\ Apply(DoSetMax(w, n), [a |-> "setmax", n |-> n])
ASDisconnect(id) == Can /\ "disconnect" \in Calls /\ ById(w, id) # 0 /\ Apply(DoSDisconnect(w, id), [a |-> "sdisconnect", id |-> id, as |-> NextName])
ACDisconnect(c) == Can /\ "disconnect" \in Calls /\ w.cl[c].state = "Conn" /\ Apply(DoCDisconnect(w, c), [a |-> "cdisconnect", c |-> c, as |-> NextName])
\* the client leaves and its disconnect packet reaches the server (one step)
ACLeave(c) ==
    \* a client may also give up in the middle of the handshake (its disconnect datagram then finds a half-open session or none)
    /\ Can /\ "leave" \in Calls /\ w.cl[c].state # "Disc"
    /\ LET r1 == DoCDisconnect(w, c)
           r2 == DoSDeliver(r1.w, Len(r1.w.net), Clients[c].addr)
       IN /\ w' = r2.w
          /\ obs' = FoldObs(obs, <<r1.ev, r2.ev>>, 1)
    /\ hist' = IF Export THEN hist \o <<[a |-> "cdisconnect", c |-> c, as |-> NextName], [a |-> "sdeliver", d |-> NextName]>> ELSE hist
    /\ ctl' = Stepped(w')

(***************************************************************************)
(* Bounded liveness (C18_Connects): at any point of the fault phase the    *)
(* network may heal; from then on only good rounds (DoPump over all        *)
(* clients) happen, and the observer demands that every client that had    *)
(* not given up at that point is connected on both sides after Bound       *)
(* rounds.                                                                 *)
(***************************************************************************)
AHeal == /\ HealRounds > 0 /\ ~ctl.healed
         /\ obs' = ObsStep(obs, [ev |-> "heal", cs |-> CliNames, bound |-> Bound, panic |-> FALSE])
         /\ hist' = IF Export THEN Append(hist, [a |-> "mark", mark |-> "heal", cs |-> CliNames, bound |-> Bound]) ELSE hist
         /\ ctl' = [ctl EXCEPT !.healed = TRUE]
         /\ UNCHANGED w
IdSeq == SortedIds({Tokens[t].id : t \in DOMAIN Tokens})
PayNow == IF PumpPay THEN [i \in 1..Len(IdSeq) |-> [id |-> IdSeq[i], tag |-> 7000 + 10 * ctl.rounds + i]] ELSE <<>>
APump == /\ ctl.healed /\ ctl.rounds < HealRounds
         /\ LET r == DoPump(w, CliNames, HealDt, PayNow) IN
            /\ w' = r.w
            /\ obs' = FoldObs(obs, r.evs, 1)
         /\ hist' = IF Export THEN Append(hist, [a |-> "pump", cs |-> CliNames, dt |-> HealDt, n |-> 1,
                                                 spay |-> [i \in 1..Len(PayNow) |-> <<PayNow[i].id, PayNow[i].tag>>]]) ELSE hist
         /\ ctl' = [ctl EXCEPT !.rounds = @ + 1]

Ids == {Tokens[t].id : t \in DOMAIN Tokens}
Next == \/ \E c \in DOMAIN Clients : \E dt \in Dts : ACUpdate(c, dt) \/ (\E from \in Addrs \cup {Clients[c].addr} : AExchange(c, dt, from))
        \/ \E dt \in Dts : ASUpdate(dt)
        \/ \E k \in 1..24 : \E a \in Addrs : ASDeliver(k, a)
        \/ \E c \in DOMAIN Clients : \E k \in 1..24 : ACDeliver(c, k)
        \/ \E tk \in CraftToks : \E k \in 1..24 : \E a \in Addrs : ACraft(tk, k, a)
        \/ \E c \in DOMAIN Clients : ACPayload(c) \/ ACDisconnect(c) \/ ACLeave(c)
        \/ \E id \in Ids : ASPayload(id) \/ ASDisconnect(id)
        \/ \E n \in 1..3 : ASetMax(n)
        \/ AHeal \/ APump

Spec == Init /\ [][Next]_vars
NoFlag == obs.flags = {}
Done == IF HealRounds = 0 THEN ctl.steps = MaxSteps ELSE ctl.healed /\ ctl.rounds = HealRounds
\* large state spaces export a random sample of their finished behaviours (one in ExportOneIn)
ExportInv == (Export /\ (ExportAll \/ Done) /\ RandomElement(1..ExportOneIn) = 1) => PrintT(<<"PATH", ToJson([done |-> Done, steps |-> hist])>>)
ExportCfg == PrintT(<<"CFG", ToJson(Cfg)>>)
ASSUME ExportCfg
\* When no action refers to individual emitted datagrams (no "deliver"), behaviours that differ only in the order of
\* independent exchanges reach states that differ only in emission numbers: identify them
View == IF Coarse
        THEN <<[i \in 1..Len(w.slots) |-> [w.slots[i] EXCEPT !.lastRecv = 0, !.lastSend = 0]],
               [a \in DOMAIN w.pending |-> w.pending[a].tok], [i \in 1..Len(w.entries) |-> <<w.entries[i].tok, w.entries[i].addr>>], w.consumed, w.maxc,
               [c \in DOMAIN w.cl |-> <<w.cl[c].state, w.cl[c].reason, w.cl[c].seq>>], obs.sess, obs.flags, ctl.steps, ctl.rel, ctl.tried>>
        ELSE <<w, obs, ctl>>

\* ---- named configurations ----
Tok(id, ud, hostseq, expire, sealed, proto) ==
    [id |-> id, ud |-> ud, hosts |-> {hostseq[i] : i \in 1..Len(hostseq)}, hostseq |-> hostseq, create |-> 0, expire |-> expire, timeout |-> 5,
     sealed |-> sealed, proto |-> proto, tamper |-> "none", ok |-> TRUE]
\* a victim, an attacker with a token of its own and a second token for the victim's id
Toks_cross == [TV |-> Tok(10, 31, <<1>>, 30, "K", "P"), TA |-> Tok(20, 61, <<1>>, 30, "K", "P"), TV2 |-> Tok(10, 32, <<1>>, 30, "K", "P")]
Clis_cross == [v |-> [tok |-> "TV", addr |-> 1], a |-> [tok |-> "TA", addr |-> 2], v2 |-> [tok |-> "TV2", addr |-> 3]]
\* three identities racing for slots
Toks_three == [T1 |-> Tok(10, 31, <<1>>, 30, "K", "P"), T2 |-> Tok(20, 61, <<1>>, 30, "K", "P"), T3 |-> Tok(30, 91, <<1>>, 30, "K", "P")]
Clis_three == [c1 |-> [tok |-> "T1", addr |-> 1], c2 |-> [tok |-> "T2", addr |-> 2], c3 |-> [tok |-> "T3", addr |-> 3]]
Toks_two == [T1 |-> Tok(10, 31, <<1>>, 30, "K", "P"), T2 |-> Tok(20, 61, <<1>>, 30, "K", "P")]
Clis_two == [c1 |-> [tok |-> "T1", addr |-> 1], c2 |-> [tok |-> "T2", addr |-> 2]]
Toks_one == [T1 |-> Tok(10, 31, <<1>>, 30, "K", "P")]
Clis_one == [c1 |-> [tok |-> "T1", addr |-> 1]]
\* one client whose token has a 1 s timeout (C18: time-outs on both sides)
Toks_t1 == [T1 |-> [Tok(10, 31, <<1>>, 30, "K", "P") EXCEPT !.timeout = 1]]
P_LIVE == <<"C18", "C10", "C17">>
\* invalid tokens next to a valid one
Toks_bad == [TV |-> Tok(10, 31, <<1>>, 30, "K", "P"), TF |-> Tok(40, 41, <<1>>, 30, "F", "P"), TQ |-> Tok(41, 42, <<1>>, 30, "K", "Q"),
             TH |-> Tok(42, 43, <<2>>, 30, "K", "P"), TE |-> Tok(43, 44, <<1>>, 0, "K", "P")]
Clis_bad == [v |-> [tok |-> "TV", addr |-> 1], f |-> [tok |-> "TF", addr |-> 2], q |-> [tok |-> "TQ", addr |-> 2], h |-> [tok |-> "TH", addr |-> 3],
             x |-> [tok |-> "TE", addr |-> 3]]
\* the holder of T1 at two addresses and a second identity (D21: with a one-entry token table the binding of T1 is evicted)
Clis_moved == [c1 |-> [tok |-> "T1", addr |-> 1], c1b |-> [tok |-> "T1", addr |-> 3], c2 |-> [tok |-> "T2", addr |-> 2]]
\* applications that do not use the user data issue every token with the same one: one address holding tokens for two ids,
\* a second holder of a token for the second id (seeded change C10/c: "id or user data matches" instead of "and")
\* a copy of the victim's token in the hands of somebody at the attacker's address (the attacker has a token of its own there)
Clis_thief == [v |-> [tok |-> "TV", addr |-> 1], a |-> [tok |-> "TA", addr |-> 2], vt |-> [tok |-> "TV", addr |-> 2], v2 |-> [tok |-> "TV2", addr |-> 3]]
Toks_sameud == [T1 |-> Tok(10, 7, <<1>>, 30, "K", "P"), T2a |-> Tok(20, 7, <<1>>, 30, "K", "P"), T2b |-> Tok(20, 7, <<1>>, 30, "K", "P")]
Clis_sameud == [a1 |-> [tok |-> "T1", addr |-> 1], a2 |-> [tok |-> "T2a", addr |-> 1], b |-> [tok |-> "T2b", addr |-> 2]]
\* ServerAuthentication::Unsecure: tokens sealed with the all-zero key are honoured whatever hosts they list (TZ lists another
\* address), a token sealed with the real private key is NOT (TK), two identities and one outsider
Toks_unsec == [TZ |-> Tok(10, 31, <<2>>, 30, "Z", "P"), TK |-> Tok(20, 61, <<1>>, 30, "K", "P"), TZ2 |-> Tok(30, 91, <<1>>, 30, "Z", "P")]
Clis_unsec == [z |-> [tok |-> "TZ", addr |-> 1], k |-> [tok |-> "TK", addr |-> 2], z2 |-> [tok |-> "TZ2", addr |-> 3]]
UnsecureMode == FALSE
\* a client program restarted behind the same address: a second client object with a fresh token for the same id (1 s time-outs)
Toks_restart == [T1 |-> [Tok(10, 31, <<1>>, 30, "K", "P") EXCEPT !.timeout = 1], T1b |-> [Tok(10, 32, <<1>>, 30, "K", "P") EXCEPT !.timeout = 1],
                 T2 |-> Tok(20, 61, <<1>>, 30, "K", "P")]
Clis_restart == [c1 |-> [tok |-> "T1", addr |-> 1], c1b |-> [tok |-> "T1b", addr |-> 1], c2 |-> [tok |-> "T2", addr |-> 2]]
P_RESTART == <<"C05", "C10", "C17", "C19", "C04", "C13", "C18">>
P_HS == <<"C05", "C10", "C17", "C19", "C04", "C13">>
=============================================================================
