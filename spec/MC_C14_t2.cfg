\* C14 thorough 2: budget 1200 used up exactly by one 1200-byte reliable message, two unreliable messages behind it
SPECIFICATION Spec
CONSTANTS
  ChSC <- Ch_RO_U
  ChCS <- Ch_RO_U
  SeqBase = 0
  MidBase = 0
  Budget = 1200
  Workload <- WL_1200_then_U
  MaxFlushS = 1
  MaxFlushC = 3
  MaxTicks = 2
  Dts = {300}
  MaxDeliver = 1
  HealDt = 300
  HealRounds = 3
  Bound <- NoBound
  HealLose = {TRUE, FALSE}
  Reorder = TRUE
  RecvAnywhere = FALSE
  PropsOn <- P_C14
  MaxHostile = 0
  HostileSet = "none"
  ExportAll = TRUE
  Export = TRUE
INVARIANT NoFlag
INVARIANT ExportInv
VIEW View
CHECK_DEADLOCK FALSE
