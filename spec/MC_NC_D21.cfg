\* DEMONSTRATION of known finding D21, not a registered check: with a token table of ONE entry (the code has 2048) the
\* binding of token T1 to the address that used it first is evicted by the request of another identity, and T1 is then
\* honoured from a second address: TLC reports C05_Sound violated (NoFlag).  With TokenTable = 2048 the same configuration holds.
SPECIFICATION Spec
CONSTANTS
  Tokens <- Toks_two
  Clients <- Clis_moved
  MaxClients0 = 2
  ServerAddrs = 1
  TokenSingleUse = TRUE
  TokenTable = 1
  MaxSteps = 5
  Addrs = {1, 2, 3}
  Dts = {250}
  CraftToks = {}
  MaxPresent = 2
  Calls = {"exchange"}
  PumpPay = FALSE
  HealRounds = 0
  HealDt = 250
  Bound = 0
  PropsOn <- P_HS
  Export = FALSE
  ExportAll = FALSE
  ExportOneIn = 1
INVARIANT NoFlag
VIEW View
CHECK_DEADLOCK FALSE
