----------------------------- MODULE TransportObs -----------------------------
(***************************************************************************)
(* Observer for the full stack (C20): real netcode transports over UDP,    *)
(* RenetServer / RenetClient on top, an in-path relay.  Events: sstep      *)
(* (server transport update + send, with the ids both layers report and    *)
(* the server events drained), cstep (client transport update + send with  *)
(* both layers' status), relay (what the relay did), send / recv (end to   *)
(* end messages), disc (application initiated disconnect), round_end.      *)
(***************************************************************************)
EXTENDS Integers, Sequences, FiniteSets, TLC

Get(f, k, d) == IF k \in DOMAIN f THEN f[k] ELSE d
Put(f, k, v) == TLCEval([x \in (DOMAIN f) \cup {k} |-> IF x = k THEN v ELSE f[x]])
Range(s) == {s[i] : i \in DOMAIN s}

ObsInit == [cfg |-> [props |-> <<>>, clients |-> <<>>], up |-> <<>>, everUp |-> {}, sub |-> <<>>, got |-> <<>>, gotN |-> <<>>, subN |-> <<>>,
            asked |-> <<>>, cst |-> <<>>, holder |-> <<>>, marks |-> <<>>, pos |-> <<>>, healed |-> FALSE, rounds |-> 0, bound |-> 0 - 1, flags |-> {}]
ObsReset(cfg) == [ObsInit EXCEPT !.cfg = cfg, !.up = [c \in Range(cfg.clients) |-> FALSE],
                                 !.cst = [c \in Range(cfg.clients) |-> "Connecting"]]
Props(o) == Range(o.cfg.props)
Flag(o, F) == [o EXCEPT !.flags = @ \cup F]
FlagIf(o, c, f) == IF c THEN Flag(o, {f}) ELSE o

\* two harness clients may hold tokens for ONE netcode client id (cfg.twins = <<<<client, id>>, ...>>): the id a client acts under
NetId(o, c) == IF "twins" \in DOMAIN o.cfg /\ \E i \in 1..Len(o.cfg.twins) : o.cfg.twins[i][1] = c
               THEN o.cfg.twins[CHOOSE i \in 1..Len(o.cfg.twins) : o.cfg.twins[i][1] = c][2] ELSE c

RECURSIVE FoldEvs(_, _, _)
\* server events: alternation Connected / Disconnected per id
FoldEvs(o, evs, i) ==
    IF i > Len(evs) THEN o ELSE
    LET e == evs[i]
        was == Get(o.up, e.id, FALSE)
    IN IF e.type = "Connected"
       THEN FoldEvs(FlagIf([o EXCEPT !.up = Put(@, e.id, TRUE), !.everUp = @ \cup {e.id}], was, <<"C20", "EventsOnce">>), evs, i + 1)
       ELSE LET asked == e.id \in DOMAIN o.asked
                \* interference alone never disconnects: a disconnect nobody asked for is only legitimate as a timeout
                spurious == ~asked /\ ~o.cfg.allow_timeouts
                \* what was submitted for this id and the session did not deliver died with the session: a later session of the
                \* same id (a restarted client) starts a new ordered stream -- remember where in the submissions it starts
                cut == [k \in DOMAIN o.sub |-> IF NetId(o, k[1]) = e.id THEN Get(o.marks, k, {}) \cup {Len(o.sub[k]) + 1} ELSE Get(o.marks, k, {})]
            IN FoldEvs(FlagIf(FlagIf([o EXCEPT !.up = Put(@, e.id, FALSE), !.holder = [x \in (DOMAIN @) \ {e.id} |-> @[x]], !.marks = cut], ~was, <<"C20", "EventsOnce">>),
                              spurious, <<"C20", "OnlyTimeouts">>), evs, i + 1)

ObsSStep(o, e) ==
    LET v == e.view
        o1 == FoldEvs(o, v.evs, 1)
        ids == Range(v.ids)
        nids == Range(v.nids)
        \* after the transport's update the two layers agree on who is connected, and on how many
        F == (IF ids # nids \/ v.ncount # Cardinality(nids) \/ ~v.addr_ok THEN {<<"C20", "LockStep">>} ELSE {})
             \cup (IF \E c \in ids : ~Get(o1.up, c, FALSE) THEN {<<"C20", "EventsOnce">>} ELSE {})
    IN Flag(o1, F)

ObsCStep(o, e) ==
    LET c == e.c
        was == Get(o.cst, c, "Connecting")
        now == e.cs.status
        asked == c \in DOMAIN o.asked
        F == (IF was = "Disc" /\ now # "Disc" THEN {<<"C20", "BothSides">>} ELSE {})
             \cup (IF was # "Disc" /\ now = "Disc" /\ ~asked /\ ~o.cfg.allow_timeouts THEN {<<"C20", "OnlyTimeouts">>} ELSE {})
             \* C11: the disconnection of OTHER clients (somebody was asked to go, this one was not) does not end this client's session
             \cup (IF was # "Disc" /\ now = "Disc" /\ ~asked /\ ~o.cfg.allow_timeouts /\ DOMAIN o.asked # {} THEN {<<"C11", "Bystander">>} ELSE {})
    IN Flag([o EXCEPT !.cst = Put(@, c, now)], F)

\* a server side disconnect of an id the message layer does not list is a no-op (ok = FALSE): no session was asked to end
ObsDisc(o, e) == IF "ok" \in DOMAIN e /\ ~e.ok THEN o ELSE [o EXCEPT !.asked = Put(@, e.c, [who |-> e.who, rounds |-> 0])]

ObsSend(o, e) ==
    IF ~e.ok THEN o ELSE
    LET k == <<e.c, e.dir, e.ch>> IN
    [o EXCEPT !.sub = Put(@, k, Append(Get(@, k, <<>>), e.cid)), !.subN = Put(@, <<k, e.cid>>, Get(@, <<k, e.cid>>, 0) + 1)]

ObsRecv(o, e) ==
    LET id == NetId(o, e.c)
        \* the clients that may legitimately act under this id, and which of them submitted this content on this channel
        sameId == {x \in Range(o.cfg.clients) : NetId(o, x) = id}
        subs == {x \in sameId : Get(o.subN, <<<<x, e.dir, e.ch>>, e.cid>>, 0) > 0}
        x == IF subs # {} THEN CHOOSE y \in subs : TRUE ELSE e.c
        k == <<x, e.dir, e.ch>>
        g == Append(Get(o.got, k, <<>>), e.cid)
        n == Get(o.gotN, <<k, e.cid>>, 0) + 1
        s == Get(o.sub, k, <<>>)
        \* ordered channel: what is obtained continues the submissions of the session it belongs to (no gap, no reordering), or
        \* is the first submission of a later session of this id (the rest of the earlier session died with it)
        p0 == Get(o.pos, k, 0)
        later == {m \in Get(o.marks, k, {}) : m > p0 + 1 /\ m <= Len(s) /\ s[m] = e.cid}
        nextPos == IF p0 + 1 <= Len(s) /\ s[p0 + 1] = e.cid THEN p0 + 1
                   ELSE IF later # {} THEN CHOOSE m \in later : \A m2 \in later : m <= m2
                   ELSE 0
        \* C11 across the full stack: a message is obtained only under the id of the client that sent it, and everything obtained
        \* under one id between its Connected and Disconnected events comes from ONE client (the holder of that session)
        foreign == e.cid >= 0 /\ subs = {} /\ \E z \in DOMAIN o.subN : z[2] = e.cid /\ z[1][1] \notin sameId
        h == Get(o.holder, id, 0)
        mixed == e.dir = "cs" /\ subs # {} /\ h # 0 /\ h # x
        F == (IF Get(o.subN, <<k, e.cid>>, 0) = 0 \/ mixed THEN {<<"C20", "E2E_Same">>} ELSE {})
             \cup (IF foreign \/ mixed THEN {<<"C11", "Isolation">>} ELSE {})
             \cup (IF e.ch = 2 /\ nextPos = 0 THEN {<<"C20", "E2E_Ordered">>} ELSE {})
             \* reliable: exactly once; unreliable: at most once (netcode replay protection removes duplicates and replays)
             \cup (IF n > Get(o.subN, <<k, e.cid>>, 0) THEN {<<"C20", "E2E_Once">>} ELSE {})
    IN Flag([o EXCEPT !.got = Put(@, k, g), !.gotN = Put(@, <<k, e.cid>>, n), !.pos = IF e.ch = 2 /\ nextPos # 0 THEN Put(@, k, nextPos) ELSE @,
                      !.holder = IF e.dir = "cs" /\ subs # {} /\ h = 0 THEN Put(@, id, x) ELSE @], F)

ObsHeal(o, e) == [o EXCEPT !.healed = TRUE, !.rounds = 0, !.bound = e.bound]

ObsRoundEnd(o, e) ==
    LET r == IF o.healed THEN o.rounds + 1 ELSE o.rounds
        asked1 == [c \in DOMAIN o.asked |-> [o.asked[c] EXCEPT !.rounds = IF o.healed THEN @ + 1 ELSE @]]
        due == o.healed /\ o.bound >= 0 /\ r >= o.bound
        \* a disconnect decided by either layer / side ends the session on both sides
        halfOpen == {c \in DOMAIN asked1 : asked1[c].rounds >= o.bound /\ o.bound >= 0 /\ (Get(o.up, c, FALSE) \/ Get(o.cst, c, "Disc") # "Disc")}
        \* reliable traffic of sessions that are still up arrives
        late == {k \in DOMAIN o.sub : k[3] # 0 /\ k[1] \notin DOMAIN o.asked /\ Get(o.up, k[1], FALSE) /\ Get(o.cst, k[1], "x") = "Connected"
                                      /\ Len(Get(o.got, k, <<>>)) < Len(o.sub[k])}
        notUp == {c \in Range(o.cfg.clients) : c \notin DOMAIN o.asked /\ c \notin o.everUp}
        F == (IF o.healed /\ halfOpen # {} THEN {<<"C20", "BothSides">>} ELSE {})
             \cup (IF due /\ late # {} THEN {<<"C20", "E2E_Live">>} ELSE {})
             \* C11 across the full stack: the disconnection of one client does not drop the traffic of the others
             \cup (IF due /\ late # {} /\ DOMAIN o.asked # {} THEN {<<"C11", "Bystander">>} ELSE {})
             \cup (IF due /\ notUp # {} /\ ~o.cfg.allow_timeouts THEN {<<"C20", "Connects">>} ELSE {})
    IN Flag([o EXCEPT !.rounds = r, !.asked = asked1], F)

Dispatch(o, e) ==
    CASE e.ev = "sstep"     -> ObsSStep(o, e)
      [] e.ev = "cstep"     -> ObsCStep(o, e)
      [] e.ev = "disc"      -> ObsDisc(o, e)
      [] e.ev = "send"      -> ObsSend(o, e)
      [] e.ev = "recv"      -> ObsRecv(o, e)
      [] e.ev = "heal"      -> ObsHeal(o, e)
      [] e.ev = "round_end" -> ObsRoundEnd(o, e)
      [] OTHER              -> o

ObsStep(o, e) ==
    IF e.ev = "reset" THEN ObsReset(e.cfg) ELSE
    LET o0 == [o EXCEPT !.flags = {}]
        o1 == Dispatch(o0, e)
        o2 == IF e.panic THEN Flag(o1, {<<p, "NoPanic">> : p \in Props(o1)}) ELSE o1
    IN [o2 EXCEPT !.flags = {f \in @ : f[1] \in Props(o2)}]

Detail(o, e) == [up |-> o.up, cst |-> o.cst, asked |-> o.asked]
Cause(o, e) == "none"
=============================================================================
