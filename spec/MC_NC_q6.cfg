\* netcode quick 6 (same user data everywhere): one address holding tokens for two client ids (the second request replaces the
\* half-open session of the first), a second holder of a token for the second id, honest exchanges and responses sealed with the
\* first address' keys echoing any challenge seen, in any interleaving of 5 steps: ids stay unique, a response must echo the
\* challenge issued for the pending request -- id AND user data.
SPECIFICATION Spec
CONSTANTS
  Tokens <- Toks_sameud
  Clients <- Clis_sameud
  MaxClients0 = 3
  ServerAddrs = 1
  TokenSingleUse = TRUE
  TokenTable = 2048
  MaxSteps = 5
  Addrs = {1, 2}
  Dts = {250}
  CraftToks = {"T2a"}
  MaxPresent = 1
  Calls = {"exchange", "craft"}
  PumpPay = FALSE
  HealRounds = 0
  HealDt = 250
  Bound = 0
  PropsOn <- P_HS
  Export = TRUE
  ExportAll = FALSE
  ExportOneIn = 1
INVARIANT NoFlag
INVARIANT ExportInv
VIEW View
CHECK_DEADLOCK FALSE
