\* C01 quick: one 3-slice ReliableOrdered message; every subset / order of deliveries of the 6 data packets
\* (first transmission and one retransmission) and of the acks, then heal (with or without loss) and good rounds.
SPECIFICATION Spec
CONSTANTS
  ChSC <- Ch_RO
  ChCS <- Ch_RO
  SeqBase = 0
  MidBase = 0
  Budget = 60000
  Workload <- WL_sliced_small
  MaxFlushS = 1
  MaxFlushC = 2
  MaxTicks = 1
  Dts = {300}
  MaxDeliver = 1
  HealDt = 300
  HealRounds = 3
  Bound = 3
  HealLose = {TRUE, FALSE}
  Reorder = TRUE
  RecvAnywhere = FALSE
  PropsOn <- P_C09
  MaxHostile = 0
  HostileSet = "none"
  ExportAll = TRUE
  Export = TRUE
INVARIANT NoFlag
INVARIANT ExportInv
VIEW View
CHECK_DEADLOCK FALSE
