\* C11 quick: two clients; unicast and broadcast (with and without an excluded client) on a reliable and an unreliable
\* channel, any interleaving of send / flush / deliver / receive up to 6 calls, then loss of everything in flight and
\* good rounds: every target obtains every broadcast exactly once, nobody else obtains anything.
SPECIFICATION Spec
CONSTANTS
  ChSC <- Ch_RO_U
  ChCS <- Ch_RO_U
  SeqBase = 0
  MidBase = 0
  Budget = 60000
  Ids = {1, 2}
  MaxSteps = 5
  Calls = {"traffic", "bcast"}
  Msgs <- Msgs_bcast
  HealDt = 300
  HealRounds = 3
  Bound = 3
  PropsOn <- P_C11
  ExportAll = FALSE
  Export = TRUE
  Manual = FALSE
INVARIANT NoFlag
INVARIANT ExportInv
VIEW View
CHECK_DEADLOCK FALSE
