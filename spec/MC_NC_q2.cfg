\* netcode quick 2: two tokens for one id + a third identity, 3 slots; honest exchanges and disconnects in any order (7 steps):
\* two half-open sessions for one id, slots freed in front of an established session.
SPECIFICATION Spec
CONSTANTS
  Tokens <- Toks_cross
  Clients <- Clis_cross
  MaxClients0 = 3
  ServerAddrs = 1
  TokenSingleUse = TRUE
  TokenTable = 2048
  MaxSteps = 10
  Addrs = {1, 2, 3}
  Dts = {250}
  CraftToks = {"TA", "TV2"}
  MaxPresent = 2
  Calls = {"exchange", "disconnect", "leave"}
  PumpPay = FALSE
  HealRounds = 0
  HealDt = 250
  Bound = 0
  PropsOn <- P_HS
  Export = TRUE
  ExportAll = FALSE
  ExportOneIn = 1
INVARIANT NoFlag
INVARIANT ExportInv
VIEW View
CHECK_DEADLOCK FALSE
