\* C13 quick: unreliable messages around the packing threshold
SPECIFICATION Spec
CONSTANTS
  ChSC <- Ch_U
  ChCS <- Ch_U
  SeqBase = 60
  MidBase = 16381
  Budget = 60000
  Workload <- WL_pack_U
  MaxFlushS = 1
  MaxFlushC = 2
  MaxTicks = 0
  Dts = {300}
  MaxDeliver = 1
  HealDt = 300
  HealRounds = 1
  Bound <- NoBound
  HealLose = {FALSE}
  Reorder = TRUE
  RecvAnywhere = FALSE
  PropsOn <- P_C13
  MaxHostile = 0
  HostileSet = "none"
  ExportAll = TRUE
  Export = TRUE
INVARIANT NoFlag
INVARIANT ExportInv
VIEW View
CHECK_DEADLOCK FALSE
