\* C14 quick: budget 100, three 100-byte unreliable messages in one tick
SPECIFICATION Spec
CONSTANTS
  ChSC <- Ch_U
  ChCS <- Ch_U
  SeqBase = 0
  MidBase = 0
  Budget = 100
  Workload <- WL_U_3x100
  MaxFlushS = 0
  MaxFlushC = 2
  MaxTicks = 1
  Dts = {300}
  MaxDeliver = 1
  HealDt = 300
  HealRounds = 3
  Bound <- NoBound
  HealLose = {TRUE, FALSE}
  Reorder = TRUE
  RecvAnywhere = FALSE
  PropsOn <- P_C14
  MaxHostile = 0
  HostileSet = "none"
  ExportAll = TRUE
  Export = TRUE
INVARIANT NoFlag
INVARIANT ExportInv
VIEW View
CHECK_DEADLOCK FALSE
