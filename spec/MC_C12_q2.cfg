\* C12 local clients: every sequence of up to 6 local-client / table / status / traffic calls over one client id:
\* new_local_client, disconnect_local_client, process_local_client interleaved with disconnects, sends and event reads.
SPECIFICATION Spec
CONSTANTS
  ChSC <- Ch_tiny
  ChCS <- Ch_tiny
  SeqBase = 0
  MidBase = 0
  Budget = 60000
  Ids = {1}
  MaxSteps = 6
  Calls = {"local", "table", "status", "traffic"}
  Msgs <- Msgs_api
  HealDt = 300
  HealRounds = 0
  Bound <- NoBound
  PropsOn <- P_C12
  ExportAll = TRUE
  Export = TRUE
  Manual = TRUE
INVARIANT NoFlag
INVARIANT ExportInv
VIEW View
CHECK_DEADLOCK FALSE
