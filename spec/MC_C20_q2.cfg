\* C20 with time-outs (1 s token time-out, 400 ms steps: an endpoint that heard nothing for 3 updates gives up): two clients; client steps and server steps with per-direction pass / drop decisions of the relay and up to two
\* application initiated disconnects (server / client / client transport) in any interleaving of 11 steps.
SPECIFICATION Spec
CONSTANTS
  Ids = {1, 2}
  MaxSteps = 11
  MaxDisc = 2
  Export = TRUE
  ExportOneIn = 40
  StepDt = 400
  TimeoutS = 1
  TimeoutSteps = 3
INVARIANT LockStep
INVARIANT EventsOnce
INVARIANT OnlyAsked
INVARIANT NoEarlyTimeout
INVARIANT ExportInv
VIEW View
CHECK_DEADLOCK FALSE
