\* C08 quick: 3-slice message, retransmission, acks of both copies
SPECIFICATION Spec
CONSTANTS
  ChSC <- Ch_RO
  ChCS <- Ch_RO
  SeqBase = 0
  MidBase = 0
  Budget = 60000
  Workload <- WL_RO_3slices
  MaxFlushS = 1
  MaxFlushC = 2
  MaxTicks = 1
  Dts = {300}
  MaxDeliver = 1
  HealDt = 300
  HealRounds = 3
  Bound = 3
  HealLose = {TRUE, FALSE}
  Reorder = TRUE
  RecvAnywhere = FALSE
  PropsOn <- P_C08
  MaxHostile = 0
  HostileSet = "none"
  ExportAll = TRUE
  Export = TRUE
INVARIANT NoFlag
INVARIANT ExportInv
VIEW View
CHECK_DEADLOCK FALSE
