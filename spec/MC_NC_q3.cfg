\* netcode quick 3: two identities racing for ONE slot; requests, lost denials, retries, disconnects (6 steps).
SPECIFICATION Spec
CONSTANTS
  Tokens <- Toks_two
  Clients <- Clis_two
  MaxClients0 = 1
  ServerAddrs = 1
  TokenSingleUse = TRUE
  TokenTable = 2048
  MaxSteps = 6
  Addrs = {1, 2}
  Dts = {250}
  CraftToks = {}
  MaxPresent = 2
  Calls = {"exchange", "client", "disconnect", "deliver"}
  PumpPay = FALSE
  HealRounds = 0
  HealDt = 250
  Bound = 0
  PropsOn <- P_HS
  Export = TRUE
  ExportAll = FALSE
  ExportOneIn = 4
INVARIANT NoFlag
INVARIANT ExportInv
VIEW View
CHECK_DEADLOCK FALSE
