\* C14 quick: budget 1200, one 2400-byte reliable message
SPECIFICATION Spec
CONSTANTS
  ChSC <- Ch_RO
  ChCS <- Ch_RO
  SeqBase = 0
  MidBase = 0
  Budget = 1200
  Workload <- WL_2400
  MaxFlushS = 1
  MaxFlushC = 3
  MaxTicks = 2
  Dts = {300}
  MaxDeliver = 1
  HealDt = 300
  HealRounds = 3
  Bound <- NoBound
  HealLose = {TRUE, FALSE}
  Reorder = TRUE
  RecvAnywhere = FALSE
  PropsOn <- P_C14
  MaxHostile = 0
  HostileSet = "none"
  ExportAll = TRUE
  Export = TRUE
INVARIANT NoFlag
INVARIANT ExportInv
VIEW View
CHECK_DEADLOCK FALSE
