\* netcode liveness: one client with a 1 s timeout; client and server updates of 250 / 1000 ms, exchanges, replays, in any
\* interleaving of 9 steps: a silent peer is timed out at the next update, a live one is not, replays do not postpone it.
SPECIFICATION Spec
CONSTANTS
  Tokens <- Toks_t1
  Clients <- Clis_one
  MaxClients0 = 2
  ServerAddrs = 1
  TokenSingleUse = TRUE
  TokenTable = 2048
  MaxSteps = 9
  Addrs = {1, 2}
  Dts = {250, 1000}
  CraftToks = {}
  MaxPresent = 2
  Calls = {"exchange", "client", "time", "deliver"}
  PumpPay = FALSE
  HealRounds = 0
  HealDt = 250
  Bound = 0
  PropsOn <- P_LIVE
  Export = TRUE
  ExportAll = FALSE
  ExportOneIn = 1500
INVARIANT NoFlag
INVARIANT ExportInv
VIEW View
CHECK_DEADLOCK FALSE
