\* C03 quick: unreliable + reliable ordered mixed in one tick
SPECIFICATION Spec
CONSTANTS
  ChSC <- Ch_U_RO
  ChCS <- Ch_U_RO
  SeqBase = 0
  MidBase = 0
  Budget = 60000
  Workload <- WL_mixed_U_RO
  MaxFlushS = 0
  MaxFlushC = 1
  MaxTicks = 0
  Dts = {300}
  MaxDeliver = 2
  HealDt = 300
  HealRounds = 3
  Bound = 3
  HealLose = {TRUE, FALSE}
  Reorder = TRUE
  RecvAnywhere = FALSE
  PropsOn <- P_C03
  MaxHostile = 0
  HostileSet = "none"
  ExportAll = TRUE
  Export = TRUE
INVARIANT NoFlag
INVARIANT ExportInv
VIEW View
CHECK_DEADLOCK FALSE
